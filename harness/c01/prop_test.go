// C01 — exactly the matching, in-scope, unsuppressed rules fire once per event.
//
// Domain: a rule set (1..8 generated rules, or a "wide" set of 60..70 state
// rules on one kind), a history of 1..6 events (names from {e1,e2} so that two
// events share a name but not a kind), a cascade scope per event, 1..4 workers.
//
// Three drivers over the same case:
//
//	(i)   engine.RuleIndex: AddRule / Match / IsTriggering directly,
//	(ii)  a started engine.Processor: AddEventAndWait per event, rule actions are
//	      Go closures which record (rule name, event pointer),
//	(iii) for a sample: the ECAL route, the rule set printed as sink declarations
//	      and the events sent with addEventAndWait(name, kind, state, scope).
//
// Oracle: a reference matcher written from the property statement (model.go
// part of this file: kindMatches, stateVerdict, scopeAllowed, expected set).
package c01

import (
	"encoding/json"
	"fmt"
	"os"
	"regexp"
	"sort"
	"strconv"
	"strings"
	"sync"
	"testing"
	"time"

	"github.com/krotik/ecal/engine"
	"github.com/krotik/ecal/interpreter"
	"github.com/krotik/ecal/parser"
	"github.com/krotik/ecal/util"

	"verif/internal/erun"
	"verif/internal/hx"
)

const rule = "case = (rule set, event history, one cascade scope per event, worker count 1..4, ECAL-route flag): rule sets of 1..8 generated rules (1..3 kind patterns of 1..3 segments over {a,b,c,*} with overlapping/duplicate patterns likely, 0..2 scope paths over {s,s.t,u}, state match nil or 0..3 keys over {k1,k2,k3} with NULL/scalar/regex/container values, priority 0..3, suppression lists over the other rule names plus unknown names) or wide sets of 60..70 state rules on one kind; histories of 1..6 events with names from {e1,e2}, kinds of 1..3 segments over {a,b,c}, states over the same keys and values, scopes over {'',s,s.t,u}; plus exhaustively enumerated rule pairs x two-event histories sharing a name; every case runs through RuleIndex.Match/IsTriggering and a started Processor (AddEventAndWait per event), a sample also through ECAL sinks and addEventAndWait. non-trivial = for at least one event of the history the expected set of firing rules is non-empty or a rule matched the kind and was removed by state, scope or suppression; distinct by hash of (rule set, ordered event history with states and scopes)"

// ---------------------------------------------------------------------------
// Case (plain data)
// ---------------------------------------------------------------------------

// Val is a state value or a state requirement.
type Val struct {
	T string  `json:"t"`           // nil | num | str | bool | re | list | map
	N float64 `json:"n,omitempty"` // number; element count for list/map
	S string  `json:"s,omitempty"` // string; regex source
	B bool    `json:"b,omitempty"`
}

// KV is one entry of a state (match) map.
type KV struct {
	K string `json:"k"`
	V Val    `json:"v"`
}

// RuleC describes one rule.
type RuleC struct {
	Name     string   `json:"name"`
	Kinds    []string `json:"kinds"`
	Scopes   []string `json:"scopes,omitempty"`
	HasState bool     `json:"has_state,omitempty"` // false: StateMatch is nil
	State    []KV     `json:"state,omitempty"`
	Prio     int      `json:"prio,omitempty"`
	Supp     []string `json:"supp,omitempty"`
}

// ScopeDef is one definition of a cascade scope.
type ScopeDef struct {
	P string `json:"p"`
	A bool   `json:"a"`
}

// EventC describes one event together with the scope of its cascade.
type EventC struct {
	Name     string     `json:"name"`
	Kind     []string   `json:"kind"`
	NilState bool       `json:"nil_state,omitempty"`
	State    []KV       `json:"state,omitempty"`
	DefScope bool       `json:"def_scope,omitempty"` // no scope given: the documented default {"": true}
	Scope    []ScopeDef `json:"scope,omitempty"`
}

// Case is one rule set with one event history.
type Case struct {
	Rules   []RuleC  `json:"rules"`
	Events  []EventC `json:"events"`
	Workers int      `json:"workers"`
	Ecal    bool     `json:"ecal,omitempty"`    // also run through the ECAL route (if expressible)
	NoProc  bool     `json:"no_proc,omitempty"` // index driver only (exhaustive enumeration)
	Wide    bool     `json:"wide,omitempty"`    // evidence label only
	Note    string   `json:"note,omitempty"`    // evidence label only
	Reused  bool     `json:"reused,omitempty"`  // the processor had an earlier life: a rule set which matches none of the events, all events processed (none triggers), Finish, Reset - then the case
}

func TestMain(m *testing.M) {
	erun.Setup()
	hx.Main(m, "C01", rule)
}

// ---------------------------------------------------------------------------
// values
// ---------------------------------------------------------------------------

func (v Val) container() bool { return v.T == "list" || v.T == "map" }

// Go returns the Go representation of a value.
func (v Val) Go() (interface{}, error) {
	switch v.T {
	case "nil":
		return nil, nil
	case "num":
		return v.N, nil
	case "str":
		return v.S, nil
	case "bool":
		return v.B, nil
	case "re":
		return regexp.Compile(v.S)
	case "list":
		l := []interface{}{}
		for i := 0; i < int(v.N) && i < 4; i++ {
			l = append(l, float64(i+1))
		}
		return l, nil
	case "map":
		m := map[interface{}]interface{}{}
		for i := 0; i < int(v.N) && i < 4; i++ {
			m["x"+strconv.Itoa(i)] = float64(i + 1)
		}
		return m, nil
	}
	return nil, fmt.Errorf("unknown value type %q", v.T)
}

func numStr(f float64) string { return strconv.FormatFloat(f, 'f', -1, 64) }

// Ecal returns the ECAL literal of a value (no regexes).
func (v Val) Ecal() string {
	switch v.T {
	case "nil":
		return "NULL"
	case "num":
		return numStr(v.N)
	case "str":
		return strconv.Quote(v.S)
	case "bool":
		if v.B {
			return "true"
		}
		return "false"
	case "list":
		var p []string
		for i := 0; i < int(v.N) && i < 4; i++ {
			p = append(p, strconv.Itoa(i+1))
		}
		return "[" + strings.Join(p, ", ") + "]"
	case "map":
		var p []string
		for i := 0; i < int(v.N) && i < 4; i++ {
			p = append(p, fmt.Sprintf("%q : %d", "x"+strconv.Itoa(i), i+1))
		}
		return "{" + strings.Join(p, ", ") + "}"
	}
	return "NULL"
}

func (v Val) String() string {
	if v.T == "re" {
		return "/" + v.S + "/"
	}
	return v.Ecal()
}

// printed is the text a regular expression requirement is matched against.
func (v Val) printed() string {
	switch v.T {
	case "num":
		return fmt.Sprint(v.N)
	case "str":
		return v.S
	case "bool":
		return fmt.Sprint(v.B)
	}
	return ""
}

// ---------------------------------------------------------------------------
// reference matcher (written from the property statement)
// ---------------------------------------------------------------------------

const (
	no = iota
	yes
	either // the references leave it open (containers, regex on NULL)
)

// kindMatches: same number of segments; each segment equal or the pattern
// segment is `*`.
func kindMatches(pattern string, kind []string) bool {
	segs := strings.Split(pattern, ".")
	if len(segs) != len(kind) {
		return false
	}
	for i, s := range segs {
		if s != "*" && s != kind[i] {
			return false
		}
	}
	return true
}

// valueVerdict decides one required value against one present event value.
func valueVerdict(req, ev Val) int {
	switch {
	case req.T == "nil":
		return yes // NULL matches any value
	case req.container():
		return either
	case ev.container():
		return either
	case req.T == "re":
		if ev.T == "nil" {
			return either // how NULL prints is not documented
		}
		re, err := regexp.Compile(req.S)
		if err != nil {
			return either
		}
		if re.MatchString(ev.printed()) {
			return yes
		}
		return no
	}
	// scalar requirement, scalar (or NULL) event value: Go ==
	if req.T != ev.T {
		return no
	}
	switch req.T {
	case "num":
		if req.N == ev.N {
			return yes
		}
	case "str":
		if req.S == ev.S {
			return yes
		}
	case "bool":
		if req.B == ev.B {
			return yes
		}
	}
	return no
}

// stateVerdict: every required key present and its value accepted.
func stateVerdict(r RuleC, e EventC) int {
	if !r.HasState {
		return yes
	}
	res := yes
	for _, req := range r.State {
		var ev *Val
		if !e.NilState {
			for i := range e.State {
				if e.State[i].K == req.K {
					ev = &e.State[i].V
				}
			}
		}
		if ev == nil {
			return no // a required key is missing: no reading lets the rule match
		}
		switch valueVerdict(req.V, *ev) {
		case no:
			return no
		case either:
			res = either
		}
	}
	return res
}

func scopeMap(e EventC) map[string]bool {
	if e.DefScope {
		return map[string]bool{"": true}
	}
	m := map[string]bool{}
	for _, d := range e.Scope {
		m[d.P] = d.A
	}
	return m
}

// scopeAllowed: the most specific defined prefix of the path decides; nothing
// defined: denied.
func scopeAllowed(defs map[string]bool, path string) bool {
	segs := strings.Split(path, ".")
	for n := len(segs); n >= 0; n-- {
		if a, ok := defs[strings.Join(segs[:n], ".")]; ok {
			return a
		}
	}
	return false
}

func scopeAllowedAll(defs map[string]bool, paths []string) bool {
	for _, p := range paths {
		if !scopeAllowed(defs, p) {
			return false
		}
	}
	return true
}

// evModel is what the reference matcher says about one event.
type evModel struct {
	kind      []bool // per rule: some kind pattern matches
	state     []int  // per rule: yes / no / either
	scope     []bool // per rule: all scope paths allowed
	uncertain bool   // a kind-matching, in-scope rule has an open state verdict: only "no crash" is required
	expected  []string
	// the same with every scope allowed (what RuleIndex.IsTriggering, which does not know the scope, must cover)
	openUncertain bool
	openExpected  []string

	remState, remScope, remSupp int
	overlap                     bool // two patterns of one rule match this event
	nameSeenOtherKind           bool // an earlier event had the same name and another kind
	nameSeenFlip                bool // ... and the opposite "some rule matches the kind" answer
}

func firing(c Case, in []bool) []string {
	var out []string
	for i, r := range c.Rules {
		if !in[i] {
			continue
		}
		suppressed := false
		for j, o := range c.Rules {
			if j == i || !in[j] {
				continue
			}
			for _, s := range o.Supp {
				if s == r.Name {
					suppressed = true
				}
			}
		}
		if !suppressed {
			out = append(out, r.Name)
		}
	}
	sort.Strings(out)
	return out
}

func buildModel(c Case) []evModel {
	ms := make([]evModel, len(c.Events))
	for ei, e := range c.Events {
		m := evModel{kind: make([]bool, len(c.Rules)), state: make([]int, len(c.Rules)), scope: make([]bool, len(c.Rules))}
		defs := scopeMap(e)
		in := make([]bool, len(c.Rules))
		inOpen := make([]bool, len(c.Rules))
		for ri, r := range c.Rules {
			n := 0
			for _, p := range r.Kinds {
				if kindMatches(p, e.Kind) {
					n++
				}
			}
			m.kind[ri] = n > 0
			if n > 1 {
				m.overlap = true
			}
			m.state[ri] = stateVerdict(r, e)
			m.scope[ri] = scopeAllowedAll(defs, r.Scopes)
			if !m.kind[ri] {
				continue
			}
			switch m.state[ri] {
			case either:
				m.openUncertain = true
				if m.scope[ri] {
					m.uncertain = true
				}
			case yes:
				inOpen[ri] = true
				if m.scope[ri] {
					in[ri] = true
				} else {
					m.remScope++
				}
			case no:
				m.remState++
			}
		}
		m.expected = firing(c, in)
		m.openExpected = firing(c, inOpen)
		n := 0
		for _, b := range in {
			if b {
				n++
			}
		}
		m.remSupp = n - len(m.expected)
		anyKind := func(ev EventC) bool {
			for _, r := range c.Rules {
				for _, p := range r.Kinds {
					if kindMatches(p, ev.Kind) {
						return true
					}
				}
			}
			return false
		}
		for _, prev := range c.Events[:ei] {
			if prev.Name == e.Name && strings.Join(prev.Kind, "\x00") != strings.Join(e.Kind, "\x00") {
				m.nameSeenOtherKind = true
				if anyKind(prev) != anyKind(e) {
					m.nameSeenFlip = true
				}
			}
		}
		ms[ei] = m
	}
	return ms
}

// ---------------------------------------------------------------------------
// construction of the real objects
// ---------------------------------------------------------------------------

func validCase(c Case) error {
	if len(c.Rules) == 0 || len(c.Events) == 0 {
		return fmt.Errorf("empty case")
	}
	names := map[string]bool{}
	for _, r := range c.Rules {
		if r.Name == "" || names[r.Name] {
			return fmt.Errorf("duplicate or empty rule name %q", r.Name)
		}
		names[r.Name] = true
		if len(r.Kinds) == 0 {
			return fmt.Errorf("rule without kind match")
		}
		keys := map[string]bool{}
		for _, kv := range r.State {
			if keys[kv.K] {
				return fmt.Errorf("duplicate state key")
			}
			keys[kv.K] = true
			if _, err := kv.V.Go(); err != nil {
				return err
			}
		}
		for _, s := range r.Supp {
			if s == r.Name {
				return fmt.Errorf("self suppression is outside the statement ('another such rule')")
			}
		}
	}
	for _, e := range c.Events {
		if len(e.Kind) == 0 {
			return fmt.Errorf("event without kind")
		}
		keys := map[string]bool{}
		for _, kv := range e.State {
			if keys[kv.K] || kv.V.T == "re" {
				return fmt.Errorf("bad event state")
			}
			keys[kv.K] = true
			if _, err := kv.V.Go(); err != nil {
				return err
			}
		}
		sc := map[string]bool{}
		for _, d := range e.Scope {
			if sc[d.P] {
				return fmt.Errorf("duplicate scope definition")
			}
			sc[d.P] = true
		}
	}
	return nil
}

func mkRule(r RuleC, action engine.RuleAction) *engine.Rule {
	var sm map[string]interface{}
	if r.HasState {
		sm = map[string]interface{}{}
		for _, kv := range r.State {
			v, _ := kv.V.Go()
			sm[kv.K] = v
		}
	}
	scopes := append([]string{}, r.Scopes...) // must not be nil
	return &engine.Rule{Name: r.Name, Desc: "", KindMatch: append([]string{}, r.Kinds...), ScopeMatch: scopes,
		StateMatch: sm, Priority: r.Prio, SuppressionList: append([]string(nil), r.Supp...), Action: action}
}

func mkEvent(e EventC) *engine.Event {
	var st map[interface{}]interface{}
	if !e.NilState {
		st = map[interface{}]interface{}{}
		for _, kv := range e.State {
			v, _ := kv.V.Go()
			st[kv.K] = v
		}
	}
	return engine.NewEvent(e.Name, append([]string{}, e.Kind...), st)
}

func mkScope(e EventC) *engine.RuleScope {
	if e.DefScope {
		return nil
	}
	return engine.NewRuleScope(scopeMap(e))
}

func evStr(e EventC) string {
	var st []string
	for _, kv := range e.State {
		st = append(st, kv.K+":"+kv.V.String())
	}
	state := "{" + strings.Join(st, ",") + "}"
	if e.NilState {
		state = "nil"
	}
	sc := "default"
	if !e.DefScope {
		var p []string
		for _, d := range e.Scope {
			p = append(p, fmt.Sprintf("%q:%v", d.P, d.A))
		}
		sc = "{" + strings.Join(p, ",") + "}"
	}
	return fmt.Sprintf("%s/%s state=%s scope=%s", e.Name, strings.Join(e.Kind, "."), state, sc)
}

func ruleStr(r RuleC) string {
	st := "nil"
	if r.HasState {
		var p []string
		for _, kv := range r.State {
			p = append(p, kv.K+":"+kv.V.String())
		}
		st = "{" + strings.Join(p, ",") + "}"
	}
	return fmt.Sprintf("%s kind=%v scope=%v state=%s prio=%d supp=%v", r.Name, r.Kinds, r.Scopes, st, r.Prio, r.Supp)
}

func rulesStr(c Case) string {
	if len(c.Rules) > 10 {
		return fmt.Sprintf("%d rules, first: %s ... last: %s", len(c.Rules), ruleStr(c.Rules[0]), ruleStr(c.Rules[len(c.Rules)-1]))
	}
	var p []string
	for _, r := range c.Rules {
		p = append(p, ruleStr(r))
	}
	return strings.Join(p, "; ")
}

// ---------------------------------------------------------------------------
// driver (i): the rule index
// ---------------------------------------------------------------------------

const (
	matchHangBound = 20 * time.Second
	waitBound      = 30 * time.Second
)

// guardedMatch runs Match on its own goroutine: a Match which does not return
// cannot be interrupted, only abandoned.
func guardedMatch(idx engine.RuleIndex, ev *engine.Event) ([]*engine.Rule, *hx.Failure) {
	type out struct {
		r []*engine.Rule
		f *hx.Failure
	}
	ch := make(chan out, 1)
	go func() {
		var o out
		o.f = hx.Guard(func() { o.r = idx.Match(ev) })
		ch <- o
	}()
	t := time.NewTimer(matchHangBound)
	defer t.Stop()
	select {
	case o := <-ch:
		return o.r, o.f
	case <-t.C:
		return nil, hx.Failf("match-hang", "RuleIndex.Match did not return within %v", matchHangBound)
	}
}

func driveIndex(c Case, ms []evModel) *hx.Failure {
	idx := engine.NewRuleIndex()
	var addErr error
	var failed string
	if f := hx.Guard(func() {
		for _, r := range c.Rules {
			if addErr = idx.AddRule(mkRule(r, nil)); addErr != nil {
				failed = r.Name
				return
			}
		}
	}); f != nil {
		f.Msg = "RuleIndex.AddRule: " + f.Msg + "\n  rules: " + rulesStr(c)
		return f
	}
	if addErr != nil {
		return hx.Failf("addrule-error", "RuleIndex.AddRule refused the valid rule %s: %v\n  rules: %s", failed, addErr, rulesStr(c))
	}

	for ei, e := range c.Events {
		m := ms[ei]
		ev := mkEvent(e)
		got, f := guardedMatch(idx, ev)
		if f != nil {
			f.Msg = fmt.Sprintf("RuleIndex.Match(%s): %s\n  rules: %s", evStr(e), f.Msg, rulesStr(c))
			return f
		}
		count := map[string]int{}
		for _, r := range got {
			count[r.Name]++
		}
		for ri, r := range c.Rules {
			n := count[r.Name]
			delete(count, r.Name)
			want := no
			if m.kind[ri] {
				want = m.state[ri]
			}
			switch {
			case n > 1:
				return hx.Failf("match-duplicate", "RuleIndex.Match(%s) returned rule %s %d times\n  rules: %s", evStr(e), r.Name, n, rulesStr(c))
			case want == yes && n == 0:
				return hx.Failf("match-missing", "RuleIndex.Match(%s) did not return rule %s whose kind and state match\n  rules: %s", evStr(e), r.Name, rulesStr(c))
			case want == no && n == 1:
				why := "kind"
				if m.kind[ri] {
					why = "state"
				}
				return hx.Failf("match-extra:"+why, "RuleIndex.Match(%s) returned rule %s whose %s does not match\n  rules: %s", evStr(e), r.Name, why, rulesStr(c))
			}
		}
		if len(count) > 0 {
			var unknown []string
			for name := range count {
				unknown = append(unknown, name)
			}
			sort.Strings(unknown)
			return hx.Failf("match-unknown-rule", "RuleIndex.Match(%s) returned rules which were never added: %q", evStr(e), unknown)
		}
		var trig bool
		if f := hx.Guard(func() { trig = idx.IsTriggering(ev) }); f != nil {
			f.Msg = fmt.Sprintf("RuleIndex.IsTriggering(%s): %s", evStr(e), f.Msg)
			return f
		}
		if !trig && !m.openUncertain && len(m.openExpected) > 0 {
			return hx.Failf("index-not-triggering", "RuleIndex.IsTriggering(%s) = false although %v fire(s) for it (all scopes allowed)\n  rules: %s", evStr(e), m.openExpected, rulesStr(c))
		}
	}
	return nil
}

// ---------------------------------------------------------------------------
// driver (ii): a started processor
// ---------------------------------------------------------------------------

type rec struct {
	name string
	ev   *engine.Event
}

type recorder struct {
	mu   sync.Mutex
	recs []rec
}

func (r *recorder) action(name string) engine.RuleAction {
	return func(p engine.Processor, m engine.Monitor, e *engine.Event, tid uint64) error {
		r.mu.Lock()
		r.recs = append(r.recs, rec{name, e})
		r.mu.Unlock()
		return nil
	}
}

func (r *recorder) take() []rec {
	r.mu.Lock()
	defer r.mu.Unlock()
	out := r.recs
	r.recs = nil
	return out
}

// keepAwake repairs lost wake-ups of the thread pool (property C09, not this
// one): a task pushed between a worker's empty dequeue and its cond.Wait stays
// unnoticed until somebody broadcasts, and AddEventAndWait never does.
// ThreadPool.WaitAll only reads counters and broadcasts.
func keepAwake(proc engine.Processor) (stop func()) {
	quit := make(chan struct{})
	go func() {
		t := time.NewTicker(2 * time.Millisecond)
		defer t.Stop()
		for {
			select {
			case <-quit:
				return
			case <-t.C:
				proc.ThreadPool().WaitAll()
			}
		}
	}()
	return func() { close(quit) }
}

func inconclusive(what string, c Case) {
	hx.E.Exclude("inconclusive." + what)
	b, _ := json.Marshal(c)
	fmt.Fprintf(os.Stderr, "C01: INCONCLUSIVE (%s, no verdict): %s\n", what, b)
}

// finish stops a processor off the verdict path.
func finish(proc engine.Processor, c Case) {
	done := make(chan struct{})
	go func() {
		defer close(done)
		defer func() { recover() }()
		if !proc.Stopped() {
			proc.Finish()
		}
	}()
	t := time.NewTimer(waitBound)
	defer t.Stop()
	select {
	case <-done:
	case <-t.C:
		inconclusive("finish-timeout", c)
	}
}

// compareFired compares the recorded action calls of one event with the model.
func compareFired(route string, c Case, e EventC, m evModel, got []string) *hx.Failure {
	count := map[string]int{}
	for _, n := range got {
		count[n]++
	}
	for _, r := range c.Rules {
		if k := count[r.Name]; k > 1 {
			return hx.Failf("fired-twice:"+route, "[%s] rule %s ran %d times for event %s\n  rules: %s", route, r.Name, k, evStr(e), rulesStr(c))
		}
	}
	if m.uncertain {
		return nil
	}
	want := map[string]bool{}
	for _, n := range m.expected {
		want[n] = true
		if count[n] == 0 {
			return hx.Failf("not-fired:"+route, "[%s] rule %s did not run for event %s; expected %v, ran %v\n  rules: %s", route, n, evStr(e), m.expected, got, rulesStr(c))
		}
	}
	sorted := append([]string{}, got...)
	sort.Strings(sorted)
	for _, n := range sorted {
		if !want[n] {
			why := "unknown"
			for ri, r := range c.Rules {
				if r.Name != n {
					continue
				}
				switch {
				case !m.kind[ri]:
					why = "kind"
				case m.state[ri] != yes:
					why = "state"
				case !m.scope[ri]:
					why = "scope"
				default:
					why = "suppressed"
				}
			}
			return hx.Failf("fired-extra:"+why+":"+route, "[%s] rule %s ran for event %s although it must not (%s); expected %v, ran %v\n  rules: %s", route, n, evStr(e), why, m.expected, got, rulesStr(c))
		}
	}
	return nil
}

func driveProcessor(c Case, ms []evModel) *hx.Failure {
	workers := c.Workers
	if workers < 1 {
		workers = 1
	}
	if workers > 8 {
		workers = 8
	}
	rc := &recorder{}
	proc := engine.NewProcessor(workers)
	if c.Reused {
		// whatever the first life left behind (cached "does not trigger" answers, index entries) must be gone after Reset
		if f := hx.Guard(func() {
			proc.AddRule(&engine.Rule{Name: "earlier-life", KindMatch: []string{"c01-no-such-kind.zz"}, ScopeMatch: []string{},
				Action: func(p engine.Processor, m engine.Monitor, e *engine.Event, tid uint64) error { return nil }})
			proc.Start()
			for _, e := range c.Events {
				ev := mkEvent(e)
				proc.IsTriggering(ev)
				proc.AddEventAndWait(ev, proc.NewRootMonitor(nil, mkScope(e)))
			}
			proc.Finish()
			if err := proc.Reset(); err != nil {
				panic(err)
			}
		}); f != nil {
			f.Msg = "earlier life of the processor (one rule matching nothing, the same events, Finish, Reset): " + f.Msg
			return f
		}
		hx.E.Class("processor.reused-after-reset", 1)
	}
	var addErr error
	if f := hx.Guard(func() {
		for _, r := range c.Rules {
			if addErr = proc.AddRule(mkRule(r, rc.action(r.Name))); addErr != nil {
				return
			}
		}
	}); f != nil {
		f.Msg = "Processor.AddRule: " + f.Msg
		return f
	}
	if addErr != nil {
		return hx.Failf("addrule-error", "Processor.AddRule refused a valid rule: %v\n  rules: %s", addErr, rulesStr(c))
	}

	proc.Start()
	stopAwake := keepAwake(proc)

	res := make(chan *hx.Failure, 1)
	go func() {
		var fail *hx.Failure
		pf := hx.Guard(func() {
			for ei, e := range c.Events {
				m := ms[ei]
				ev := mkEvent(e)
				rm := proc.NewRootMonitor(nil, mkScope(e))
				mon, err := proc.AddEventAndWait(ev, rm)
				trig := proc.IsTriggering(ev)
				recs := rc.take()
				if err != nil {
					fail = hx.Failf("addevent-error", "AddEventAndWait(%s) on a running processor returned error %v", evStr(e), err)
					return
				}
				var names []string
				for _, r := range recs {
					if r.ev != ev {
						fail = hx.Failf("wrong-event", "after AddEventAndWait(%s) [event %d] rule %s was recorded with another event object (%v)", evStr(e), ei, r.name, r.ev)
						return
					}
					names = append(names, r.name)
				}
				if !m.uncertain && len(m.expected) > 0 {
					if mon == nil {
						fail = hx.Failf("event-skipped", "event %d %s was skipped (AddEventAndWait returned a nil monitor) although %v must fire; earlier events: %s\n  rules: %s",
							ei, evStr(e), m.expected, history(c, ei), rulesStr(c))
						return
					}
					if !trig {
						fail = hx.Failf("not-triggering", "Processor.IsTriggering(%s) = false although %v must fire; earlier events: %s\n  rules: %s",
							evStr(e), m.expected, history(c, ei), rulesStr(c))
						return
					}
				}
				if mon == nil && len(names) > 0 {
					fail = hx.Failf("skipped-but-fired", "AddEventAndWait(%s) returned a nil monitor but %v ran", evStr(e), names)
					return
				}
				if fail = compareFired("processor", c, e, m, names); fail != nil {
					fail.Msg += "\n  earlier events: " + history(c, ei) + fmt.Sprintf("\n  workers: %d", workers)
					return
				}
			}
		})
		if pf != nil {
			pf.Msg = "processor route: " + pf.Msg
			fail = pf
		}
		res <- fail
	}()

	t := time.NewTimer(waitBound)
	defer t.Stop()
	select {
	case f := <-res:
		stopAwake()
		finish(proc, c)
		if f == nil {
			if late := rc.take(); len(late) > 0 {
				return hx.Failf("late-action", "rule %s ran after the last AddEventAndWait had returned", late[0].name)
			}
		}
		return f
	case <-t.C:
		// never a verdict: the pool may have lost a wake-up in a way the helper could not repair
		stopAwake()
		inconclusive("wait-timeout", c)
		go func() {
			defer func() { recover() }()
			proc.Finish()
		}()
		return nil
	}
}

func history(c Case, upto int) string {
	var p []string
	for _, e := range c.Events[:upto] {
		p = append(p, e.Name+"/"+strings.Join(e.Kind, "."))
	}
	if len(p) == 0 {
		return "(none)"
	}
	return strings.Join(p, ", ")
}

// ---------------------------------------------------------------------------
// driver (iii): the ECAL route
// ---------------------------------------------------------------------------

// ecalExpressible: no regular expressions, kinds whose segments contain no dot.
func ecalExpressible(c Case) bool {
	for _, r := range c.Rules {
		for _, kv := range r.State {
			if kv.V.T == "re" {
				return false
			}
		}
	}
	for _, e := range c.Events {
		for _, s := range e.Kind {
			if strings.Contains(s, ".") || s == "" {
				return false
			}
		}
	}
	return true
}

func strList(l []string) string {
	var p []string
	for _, s := range l {
		p = append(p, strconv.Quote(s))
	}
	return "[ " + strings.Join(p, ", ") + " ]"
}

func kvMap(kvs []KV) string {
	var p []string
	for _, kv := range kvs {
		p = append(p, strconv.Quote(kv.K)+" : "+kv.V.Ecal())
	}
	return "{ " + strings.Join(p, ", ") + " }"
}

func ecalSource(c Case) string {
	var b strings.Builder
	for _, r := range c.Rules {
		attrs := []string{"kindmatch " + strList(r.Kinds)}
		if len(r.Scopes) > 0 {
			attrs = append(attrs, "scopematch "+strList(r.Scopes))
		}
		if r.HasState {
			attrs = append(attrs, "statematch "+kvMap(r.State))
		}
		attrs = append(attrs, fmt.Sprintf("priority %d", r.Prio))
		if len(r.Supp) > 0 {
			attrs = append(attrs, "suppresses "+strList(r.Supp))
		}
		fmt.Fprintf(&b, "sink %s\n    %s\n    {\n        t.rec([ %q, event.name, event.kind ])\n    }\n",
			r.Name, strings.Join(attrs, ",\n    "), r.Name)
	}
	for i, e := range c.Events {
		fmt.Fprintf(&b, "t.rec(\"#%d\")\n", i)
		fmt.Fprintf(&b, "addEventAndWait(%q, %q, %s", e.Name, strings.Join(e.Kind, "."), kvMap(e.State))
		if !e.DefScope {
			var p []string
			for _, d := range e.Scope {
				p = append(p, fmt.Sprintf("%q : %v", d.P, d.A))
			}
			fmt.Fprintf(&b, ", { %s }", strings.Join(p, ", "))
		}
		b.WriteString(")\n")
	}
	b.WriteString("t.rec(\"#end\")\n")
	return b.String()
}

func driveEcal(c Case, ms []evModel) *hx.Failure {
	src := ecalSource(c)
	var stopAwake func()
	done := make(chan *erun.Result, 1)
	var mu sync.Mutex
	go func() {
		done <- erun.Run(src, erun.Options{Name: "c01", Debugger: func(erp *interpreter.ECALRuntimeProvider, vs parser.Scope) util.ECALDebugger {
			// no debugger is installed; this callback is only the place where erun hands out the provider
			mu.Lock()
			stopAwake = keepAwake(erp.Processor)
			mu.Unlock()
			return nil
		}})
	}()
	t := time.NewTimer(waitBound)
	defer t.Stop()
	var res *erun.Result
	select {
	case res = <-done:
	case <-t.C:
		inconclusive("ecal-wait-timeout", c)
		return nil
	}
	mu.Lock()
	if stopAwake != nil {
		stopAwake()
	}
	mu.Unlock()

	if res.Panic != nil {
		res.Panic.Msg = "ECAL route: " + res.Panic.Msg + "\n" + src
		return res.Panic
	}
	if res.ParseErr != nil || res.ValidateErr != nil {
		return hx.Failf("harness-ecal-source", "generated ECAL source was rejected: %v %v\n%s", res.ParseErr, res.ValidateErr, src)
	}
	if res.Err != nil {
		return hx.Failf("ecal-route-error", "ECAL route failed: %v\n%s", res.Err, src)
	}
	// split the trace at the markers
	per := make([][]string, len(c.Events))
	cur := -1
	for _, it := range res.Trace {
		switch v := it.(type) {
		case string:
			if v == "#end" {
				cur = len(c.Events)
			} else {
				cur, _ = strconv.Atoi(strings.TrimPrefix(v, "#"))
			}
		case []interface{}:
			if cur < 0 || cur >= len(c.Events) || len(v) != 3 {
				return hx.Failf("late-action:ecal", "sink record %v outside of any addEventAndWait call\n%s", v, src)
			}
			e := c.Events[cur]
			if fmt.Sprint(v[1]) != e.Name || fmt.Sprint(v[2]) != strings.Join(e.Kind, ".") {
				return hx.Failf("wrong-event:ecal", "sink %v ran during addEventAndWait #%d with event %v/%v instead of %s\n%s", v[0], cur, v[1], v[2], evStr(e), src)
			}
			per[cur] = append(per[cur], fmt.Sprint(v[0]))
		}
	}
	if cur != len(c.Events) {
		return hx.Failf("ecal-route-incomplete", "the ECAL program did not reach its end (last marker %d)\n%s", cur, src)
	}
	for ei, e := range c.Events {
		hx.E.Class("ecal.events", 1)
		hx.E.Class("ecal.sink-runs", int64(len(per[ei])))
		if f := compareFired("ecal", c, e, ms[ei], per[ei]); f != nil {
			f.Msg += "\n  earlier events: " + history(c, ei) + "\n" + src
			return f
		}
	}
	return nil
}

// ---------------------------------------------------------------------------
// runCase
// ---------------------------------------------------------------------------

func caseKey(c Case) string {
	b, _ := json.Marshal(struct {
		R []RuleC
		E []EventC
	}{c.Rules, c.Events})
	return string(b)
}

func runCase(c Case) *hx.Failure {
	if err := validCase(c); err != nil {
		hx.E.Exclude("invalid-case")
		return nil
	}
	ms := buildModel(c)

	// evidence
	nontrivial := false
	classes := []string{fmt.Sprintf("workers.%d", c.Workers)}
	anyUncertain := false
	var desc []string
	for ei, m := range ms {
		if len(m.expected) > 0 || m.remState+m.remScope+m.remSupp > 0 {
			if !m.uncertain {
				nontrivial = true
			}
		}
		switch {
		case m.uncertain:
			hx.E.Class("ev.unspecified.container-or-null-regex", 1)
			anyUncertain = true
		case len(m.expected) == 0:
			hx.E.Class("ev.fires.0", 1)
		case len(m.expected) == 1:
			hx.E.Class("ev.fires.1", 1)
		default:
			hx.E.Class("ev.fires.2+", 1)
		}
		if m.remState > 0 {
			hx.E.Class("ev.removed-by.state", 1)
		}
		if m.remScope > 0 {
			hx.E.Class("ev.removed-by.scope", 1)
		}
		if m.remSupp > 0 {
			hx.E.Class("ev.removed-by.suppression", 1)
		}
		if m.overlap {
			hx.E.Class("ev.two-patterns-of-one-rule-match", 1)
		}
		if m.nameSeenOtherKind {
			hx.E.Class("ev.name-seen-with-other-kind", 1)
		}
		if m.nameSeenFlip {
			hx.E.Class("ev.name-seen-with-other-kind.trigger-answer-differs", 1)
		}
		hx.E.Class("ev.total", 1)
		if len(desc) < 6 {
			desc = append(desc, fmt.Sprintf("%s -> %v", evStr(c.Events[ei]), m.expected))
		}
	}
	if c.Wide || len(c.Rules) >= 60 {
		classes = append(classes, "case.wide")
		if len(c.Rules) > 64 {
			classes = append(classes, "case.wide.more-than-64")
		}
	}
	if anyUncertain {
		classes = append(classes, "case.has-unspecified-event")
	}
	runEcal := c.Ecal && !c.NoProc && ecalExpressible(c)
	if runEcal {
		classes = append(classes, "route.ecal")
	}
	if c.NoProc {
		classes = append(classes, "route.index-only")
	} else {
		classes = append(classes, "route.processor")
	}
	key := caseKey(c)
	hx.E.Case(nontrivial, key, classes...)
	if nontrivial && len(c.Rules) <= 8 {
		var rs []string
		for _, r := range c.Rules {
			rs = append(rs, ruleStr(r))
		}
		hx.E.Sample(key, map[string]interface{}{"rules": rs, "events_expected": desc, "workers": c.Workers, "ecal_route": runEcal})
	}

	if f := driveIndex(c, ms); f != nil {
		return f
	}
	if c.NoProc {
		return nil
	}
	// from here on code under test runs on pool workers
	hx.WriteInflight(c)
	defer hx.ClearInflight()
	if f := driveProcessor(c, ms); f != nil {
		return f
	}
	if runEcal {
		if f := driveEcal(c, ms); f != nil {
			return f
		}
	}
	return nil
}

func TestRegress(t *testing.T) { hx.Regress(t, runCase) }
