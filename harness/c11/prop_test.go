// C11 — concurrent sink invocations are isolated; failures go to their own event.
//
// Domain: generated ECAL programs with 1-4 sinks (overlapping kind patterns)
// whose bodies derive locals from the event payload, call shared global
// functions, loop, interpolate strings, update globals inside mutex blocks,
// then succeed or raise an error built from the payload; 50-400 events fired
// concurrently from Go goroutines (AddEventAndWait) and through ECAL cascades
// on 2-16 workers. Oracle: per event, the values echoed through locals and
// the error report are exactly what the payload dictates; in -race builds no
// data race whose both access sites lie in interpreter/ or scope/.
package c11

import (
	"fmt"
	"os"
	"sort"
	"strings"
	"sync"
	"testing"
	"time"

	"pgregory.net/rapid"

	"github.com/krotik/ecal/engine"
	"github.com/krotik/ecal/interpreter"
	"github.com/krotik/ecal/parser"
	"github.com/krotik/ecal/scope"
	"github.com/krotik/ecal/util"

	"verif/internal/erun"
	"verif/internal/hx"
	"verif/internal/racefilter"
)

const rule = "case = (program with 1-4 sinks over overlapping kind patterns, 2-16 workers, a batch of events with payload {id, loops, fail} fired from concurrent goroutines, optionally each through a cascading relay sink); non-trivial = at least two invocations of the same sink overlapped in time (start/finish stamps taken by the harness's Go function inside the sink bodies); distinct by (program, batch); in -race builds every case is additionally judged by the race detector (both access sites in interpreter/, scope/ or engine/ without engine/pool)"

// Sink is one sink of the program.
type Sink struct {
	Pattern  string `json:"pattern"` // kind pattern over k.<x>.<y>
	Priority int    `json:"priority"`
	Helper   bool   `json:"helper"` // calls the shared global function
	Interp   bool   `json:"interp"` // interpolates a string from its locals
	Mutex    bool   `json:"mutex"`  // updates a global inside a mutex block
	Nested   bool   `json:"nested"` // computes inside an if/for nest with block-local lets
	Bag      bool   `json:"bag"`    // evaluates a bag of other constructs (like with a run-time pattern, membership, literals, closure, try/except, arithmetic) whose values follow from the event id
}

// Ev is one event of the batch.
type Ev struct {
	Kind  string `json:"kind"`
	Loops int    `json:"loops"`
	Fail  int    `json:"fail"` // index of the sink that fails for this event (-1 none)
}

// Case is one program + batch.
type Case struct {
	Sinks   []Sink `json:"sinks"`
	Events  []Ev   `json:"events"`
	Workers int    `json:"workers"`
	Relay   bool   `json:"relay"`         // events are sent to a relay sink which re-adds them with addEvent (cascade)
	Fan     int    `json:"fan,omitempty"` // > 1: events are sent in groups of this size to a fan-out sink which adds them as child events of ONE cascade (same root monitor)
	Feeders int    `json:"feeders"`
}

var tail *racefilter.Tail

func TestMain(m *testing.M) {
	if raceEnabled {
		if p := racefilter.LogPath(os.Getenv("GORACE")); p != "" {
			tail = racefilter.NewTail(p)
		}
	}
	hx.Main(m, "C11", rule)
}

func matches(pattern, kind string) bool {
	p, k := strings.Split(pattern, "."), strings.Split(kind, ".")
	if len(p) != len(k) {
		return false
	}
	for i := range p {
		if p[i] != "*" && p[i] != k[i] {
			return false
		}
	}
	return true
}

func program(c Case) string {
	var b strings.Builder
	// the shared function has container literals as defaults and changes them in place: every call must start
	// from the literal again (its result is 2x + 1 only then)
	// (and a number default whose name is also the name of an unrelated global: the parameter is a local of each call)
	b.WriteString("total := 0\ngsum := 0 - 1\nfunc helper(x, ctx={\"v\" : 0}, lst=[0], gsum=0) {\n    ctx.v := ctx.v + x\n    lst[0] := lst[0] + x\n    for k in range(1, 3) {\n        gsum := gsum + x\n    }\n    let y := x * 2\n    return y + 1 + ctx.v - x + lst[0] - x + gsum - 3 * x\n}\n")
	for i, s := range c.Sinks {
		name := fmt.Sprintf("s%d", i)
		fmt.Fprintf(&b, "sink %s\n    kindmatch [ \"%s\" ],\n    priority %d\n{\n", name, s.Pattern, s.Priority)
		b.WriteString("    let id := event.state.id\n    t.rec([\"start\", \"" + name + "\", id])\n    let acc := 0\n")
		if s.Nested {
			b.WriteString("    for i in range(1, event.state.loops) {\n        let step := id\n        if i > 0 {\n            let twice := step * 2\n            acc := acc + twice - step\n        }\n    }\n")
		} else {
			b.WriteString("    for i in range(1, event.state.loops) {\n        acc := acc + id\n    }\n")
		}
		h, sv := "0", "\"-\""
		if s.Helper {
			b.WriteString("    let h := helper(id)\n")
			h = "h"
		}
		if s.Interp {
			b.WriteString("    let sv := \"v{{id}}-{{acc}}\"\n")
			sv = "sv"
		}
		if s.Mutex {
			b.WriteString("    mutex m {\n        total := total + 1\n    }\n")
		}
		if s.Bag {
			b.WriteString("    let pat := \"^ev{{id}}$\"\n    let lk := event.name like pat\n    let lk2 := \"x{{id}}y\" like \"^x[0-9]+y$\"\n    let hp := event.name hasPrefix \"ev\"\n")
			b.WriteString("    let inl := id in [id - 1, id, id + 1]\n    let ni := id notin [0 - 1, 0 - 2]\n    let lst := [id, [id * 2], {\"k\" : id}]\n    let mp := {\"a\" : id, id : \"n\"}\n")
			b.WriteString("    let cl := func (q) {\n        return q + id\n    }\n    let r1 := cl(1)\n    let tr := 0\n    try {\n        raise(\"B{{id}}\", \"x\", id)\n    } except \"B{{id}}\" as e {\n        tr := e.data\n    }\n")
			b.WriteString("    let cmp := id > 0 and id < 1000000 and not (id == 0)\n    let ar := (id * 3 - id) / 2 + id % 7 + id // 2\n")
			fmt.Fprintf(&b, "    t.rec([\"bag\", \"%s\", id, lk, lk2, hp, inl, ni, lst[1][0], mp.a, mp[id], r1, tr, cmp, ar])\n", name)
		}
		fmt.Fprintf(&b, "    t.rec([\"echo\", \"%s\", id, acc, %s, %s, event.state.id, event.name])\n", name, h, sv)
		fmt.Fprintf(&b, "    if event.state.fail == %d {\n        raise(\"T{{id}}\", \"d{{id}}-%s\", [id, \"%s\"])\n    }\n", i, name, name)
		fmt.Fprintf(&b, "    t.rec([\"ok\", \"%s\", id])\n}\n", name)
	}
	if c.Relay {
		b.WriteString("sink relay\n    kindmatch [ \"relay\" ]\n{\n    addEvent(event.name, event.state.kind, event.state.payload)\n}\n")
	}
	if c.Fan > 1 {
		b.WriteString("sink fanout\n    kindmatch [ \"fan\" ]\n{\n")
		for j := 1; j <= c.Fan; j++ {
			fmt.Fprintf(&b, "    if event.state.n >= %d {\n        addEvent(event.state.c%d.name, event.state.c%d.kind, event.state.c%d.payload)\n    }\n", j, j, j, j)
		}
		b.WriteString("}\n")
	}
	return b.String()
}

type observed struct {
	bag    map[string][]interface{} // sink -> bag record
	echo   map[string][]interface{} // sink -> echo record
	starts map[string]int
	oks    map[string]int
}

func runCase(c Case) (fail *hx.Failure) {
	erun.Setup()
	src := program(c)
	logger := util.NewMemoryLogger(10)
	erp := erun.NewProvider("c11", &util.MemoryImportLocator{Files: map[string]string{}}, logger)
	erp.Processor = engine.NewProcessor(c.Workers)
	erp.Processor.SetFailOnFirstErrorInTriggerSequence(true)
	rec := erun.StartRecording()
	defer erun.StopRecording()

	var ast *parser.ASTNode
	var err error
	vs := scope.NewScope(scope.GlobalScope)
	if f := hx.Guard(func() {
		if ast, err = parser.ParseWithRuntime("c11", src, erp); err == nil {
			if err = ast.Runtime.Validate(); err == nil {
				_, err = ast.Runtime.Eval(vs, make(map[string]interface{}), erp.NewThreadID())
			}
		}
	}); f != nil {
		return f
	}
	if err != nil {
		return hx.Failf("harness:program", "%v\n%s", err, src)
	}
	proc := erp.Processor
	proc.Start()
	finished := false
	defer func() {
		if !finished {
			go proc.Finish()
		}
	}()

	type result struct {
		errs []*engine.TaskError
		err  error
		nilM bool
	}
	results := make([]result, len(c.Events))
	hx.WriteInflight(c) // a fatal runtime abort (concurrent map access) cannot be recovered
	var wg sync.WaitGroup
	stateOf := func(i int) map[interface{}]interface{} {
		ev := c.Events[i]
		return map[interface{}]interface{}{"id": float64(i + 1), "loops": float64(ev.Loops), "fail": float64(ev.Fail)}
	}
	// work items: single events, or groups of Fan events sent as children of one cascade
	var items [][]int
	if c.Fan > 1 {
		for i := 0; i < len(c.Events); i += c.Fan {
			var g []int
			for j := i; j < i+c.Fan && j < len(c.Events); j++ {
				g = append(g, j)
			}
			items = append(items, g)
		}
	} else {
		for i := range c.Events {
			items = append(items, []int{i})
		}
	}
	next := make(chan []int, len(items))
	for _, it := range items {
		next <- it
	}
	close(next)
	feeders := c.Feeders
	if feeders < 1 {
		feeders = 1
	}
	done := make(chan struct{})
	for f := 0; f < feeders; f++ {
		wg.Add(1)
		go func() {
			defer wg.Done()
			for it := range next {
				i := it[0]
				ev := c.Events[i]
				name := fmt.Sprintf("ev%d", i+1)
				var e *engine.Event
				switch {
				case c.Fan > 1:
					st := map[interface{}]interface{}{"n": float64(len(it))}
					for k, j := range it {
						st[fmt.Sprintf("c%d", k+1)] = map[interface{}]interface{}{"name": fmt.Sprintf("ev%d", j+1), "kind": c.Events[j].Kind, "payload": stateOf(j)}
					}
					e = engine.NewEvent(fmt.Sprintf("fan%d", i+1), []string{"fan"}, st)
				case c.Relay:
					e = engine.NewEvent(name, []string{"relay"}, map[interface{}]interface{}{"kind": ev.Kind, "payload": stateOf(i)})
				default:
					e = engine.NewEvent(name, strings.Split(ev.Kind, "."), stateOf(i))
				}
				rm := proc.NewRootMonitor(nil, nil)
				m, err := proc.AddEventAndWait(e, rm)
				r := result{err: err, nilM: m == nil}
				if m != nil {
					r.errs = rm.AllErrors()
				}
				for _, j := range it {
					results[j] = result{err: r.err, nilM: r.nilM}
				}
				results[i] = r
			}
		}()
	}
	go func() { wg.Wait(); close(done) }()
	select {
	case <-done:
	case <-time.After(120 * time.Second):
		hx.Inconclusive("c11.batch-did-not-finish")
		return nil
	}
	hx.ClearInflight()
	fin := make(chan struct{})
	go func() { proc.Finish(); close(fin) }()
	select {
	case <-fin:
		finished = true
	case <-time.After(30 * time.Second):
		hx.Inconclusive("c11.teardown")
	}

	// group the observations by event id
	obs := map[int]*observed{}
	get := func(id int) *observed {
		o, ok := obs[id]
		if !ok {
			o = &observed{map[string][]interface{}{}, map[string][]interface{}{}, map[string]int{}, map[string]int{}}
			obs[id] = o
		}
		return o
	}
	type span struct{ start, end int }
	spans := map[string][]span{} // sink -> invocation spans (positions in the global record order)
	open := map[string]int{}
	recorded := rec.Snapshot()
	for pos, it := range recorded {
		l, ok := it.([]interface{})
		if !ok || len(l) < 3 {
			return hx.Failf("record-shape", "unexpected observation %v", it)
		}
		tag, _ := l[0].(string)
		sink, _ := l[1].(string)
		idf, ok := l[2].(float64)
		if !ok {
			return hx.Failf("local-corrupted", "sink %s saw a non-numeric id %v (%s record)", sink, l[2], tag)
		}
		o := get(int(idf))
		key := fmt.Sprintf("%s/%d", sink, int(idf))
		switch tag {
		case "start":
			o.starts[sink]++
			open[key] = pos
		case "echo":
			if _, dup := o.echo[sink]; dup {
				return hx.Failf("invocation-duplicated", "sink %s echoed event %d twice", sink, int(idf))
			}
			o.echo[sink] = l
		case "ok":
			o.oks[sink]++
		case "bag":
			o.bag[sink] = l
		}
		if tag == "echo" { // the invocation is certainly still running here
			spans[sink] = append(spans[sink], span{open[key], pos})
		}
	}

	// the error reports, grouped by the id of the event each entry is attributed to
	errsByID := map[int][]*engine.TaskError{}
	for _, r := range results {
		for _, te := range r.errs {
			idv, ok := te.Event.State()["id"].(float64)
			if !ok {
				return hx.Failf("error-wrong-event", "an error report entry is attributed to event %v which carries no id", te.Event)
			}
			errsByID[int(idv)] = append(errsByID[int(idv)], te)
		}
	}

	// expectations per event
	order := make([]int, len(c.Sinks))
	for i := range order {
		order[i] = i
	}
	sort.SliceStable(order, func(a, b int) bool { return c.Sinks[order[a]].Priority < c.Sinks[order[b]].Priority })
	for i, ev := range c.Events {
		id := i + 1
		o := get(id)
		r := results[i]
		var triggered []int
		for _, si := range order {
			if matches(c.Sinks[si].Pattern, ev.Kind) {
				triggered = append(triggered, si)
			}
		}
		// priorities are distinct, so with fail-on-first-error the executed set is a prefix
		var executed []int
		failing := -1
		for _, si := range triggered {
			executed = append(executed, si)
			if ev.Fail == si {
				failing = si
				break
			}
		}
		if len(triggered) == 0 && !c.Relay && c.Fan <= 1 {
			if !r.nilM {
				return hx.Failf("harness:untriggered-event-accepted", "event %d (%s)", id, ev.Kind)
			}
			continue
		}
		if r.err != nil || r.nilM {
			return hx.Failf("event-not-accepted", "event %d (%s): AddEventAndWait returned monitor nil=%v err=%v", id, ev.Kind, r.nilM, r.err)
		}
		exp := map[string]bool{}
		for _, si := range executed {
			exp[fmt.Sprintf("s%d", si)] = true
		}
		for sink := range o.echo {
			if !exp[sink] {
				return hx.Failf("unexpected-invocation", "event %d (%s): sink %s ran", id, ev.Kind, sink)
			}
		}
		for _, si := range executed {
			name := fmt.Sprintf("s%d", si)
			s := c.Sinks[si]
			e, ok := o.echo[name]
			if !ok || o.starts[name] != 1 {
				return hx.Failf("invocation-lost", "event %d (%s): sink %s started %d times, echo present=%v", id, ev.Kind, name, o.starts[name], ok)
			}
			wantAcc := float64(id * ev.Loops)
			var wantH interface{} = float64(0)
			if s.Helper {
				wantH = float64(id*2 + 1)
			}
			var wantS interface{} = "-"
			if s.Interp {
				wantS = fmt.Sprintf("v%d-%v", id, wantAcc)
			}
			wantName := fmt.Sprintf("ev%d", id)
			if e[3] != wantAcc || e[4] != wantH || e[5] != wantS || e[6] != float64(id) || e[7] != wantName {
				return hx.Failf("local-corrupted", "event %d (%s) sink %s: echoed [acc=%v helper=%v interp=%v event.state.id=%v event.name=%v], the payload dictates [%v %v %v %v %v]",
					id, ev.Kind, name, e[3], e[4], e[5], e[6], e[7], wantAcc, wantH, wantS, id, wantName)
			}
			if s.Bag {
				bg, ok := o.bag[name]
				fid := float64(id)
				want := []interface{}{"bag", name, fid, true, true, true, true, true, fid * 2, fid, "n", fid + 1, fid, true, fid + float64(id%7) + float64(id/2)}
				if !ok || fmt.Sprint(bg) != fmt.Sprint(want) {
					return hx.Failf("local-corrupted:bag", "event %d (%s) sink %s: the bag of constructs evaluated to %v, the event id dictates %v", id, ev.Kind, name, bg, want)
				}
			}
			if si == failing {
				if o.oks[name] != 0 {
					return hx.Failf("failing-invocation-continued", "event %d sink %s", id, name)
				}
			} else if o.oks[name] != 1 {
				return hx.Failf("invocation-cut-short", "event %d (%s): sink %s did not reach its end (ok records: %d)", id, ev.Kind, name, o.oks[name])
			}
		}
		// the error report of this event
		got := map[string]error{}
		for _, te := range errsByID[id] {
			for k, v := range te.ErrorMap {
				if _, dup := got[k]; dup {
					return hx.Failf("error-duplicated", "event %d: error of sink %s reported twice", id, k)
				}
				got[k] = v
			}
		}
		if failing < 0 {
			if len(got) != 0 {
				return hx.Failf("error-unexpected", "event %d (%s): no sink fails for this payload but the report holds %v", id, ev.Kind, got)
			}
			continue
		}
		fname := fmt.Sprintf("s%d", failing)
		e, ok := got[fname]
		if !ok || len(got) != 1 {
			return hx.Failf("error-lost", "event %d (%s): sink %s raised an error; the report holds %v", id, ev.Kind, fname, got)
		}
		typ, detail, data, _, _ := erun.ErrInfo(e)
		dl, _ := data.([]interface{})
		if typ != fmt.Sprintf("T%d", id) || detail != fmt.Sprintf("d%d-%s", id, fname) || len(dl) != 2 || dl[0] != float64(id) || dl[1] != fname {
			return hx.Failf("error-of-another-invocation", "event %d sink %s: reported error is type=%q detail=%q data=%v; its own code raised T%d / d%d-%s / [%d, %s]",
				id, fname, typ, detail, data, id, id, fname, id, fname)
		}
	}

	// the mutex-protected global: one increment per executed invocation of a Mutex sink
	wantTotal := 0
	for i, ev := range c.Events {
		_ = i
		for _, si := range order {
			if matches(c.Sinks[si].Pattern, ev.Kind) {
				if c.Sinks[si].Mutex {
					wantTotal++
				}
				if ev.Fail == si {
					break
				}
			}
		}
	}
	if v, _, _ := vs.GetValue("gsum"); v != float64(-1) {
		return hx.Failf("global-clobbered", "the global gsum is %v at the end (it is set to -1 once and never assigned again; helper has a PARAMETER of that name with a default)", v)
	}
	if v, _, _ := vs.GetValue("total"); v != float64(wantTotal) {
		return hx.Failf("global-update-lost", "total is %v after %d mutex-protected increments", v, wantTotal)
	}

	// race detector (history invariant)
	if tail != nil {
		reports, _ := tail.Next()
		in, foreign, unattr := racefilter.Split(reports, []string{"github.com/krotik/ecal/interpreter", "github.com/krotik/ecal/scope", "github.com/krotik/ecal/engine"}, racefilter.SkipRuntime)
		// engine/pool has a known unlocked read in SetWorkerCount which is not about sink invocations: keep the pool out
		var keep []racefilter.Report
		for _, r := range in {
			a, b, ok := r.Sites(racefilter.SkipRuntime)
			if ok && (strings.HasSuffix(a.Pkg(), "engine/pool") || strings.HasSuffix(b.Pkg(), "engine/pool")) {
				foreign = append(foreign, r)
				continue
			}
			keep = append(keep, r)
		}
		in = keep
		hx.E.Class("race.ignored-foreign", int64(len(foreign)))
		hx.E.Class("race.unattributed", int64(len(unattr)))
		if len(in) > 0 {
			return hx.Failf(in[0].Sig(racefilter.SkipRuntime), "%d data race report(s) with both access sites in interpreter/, scope/ or engine/ (bookkeeping of sink invocations):\n%s", len(in), racefilter.Describe(in, 2))
		}
	}

	// evidence
	overlap := false
	for _, sp := range spans {
		sort.Slice(sp, func(i, j int) bool { return sp[i].start < sp[j].start })
		for i := 1; i < len(sp); i++ {
			if sp[i].start < sp[i-1].end {
				overlap = true
			}
		}
	}
	classes := []string{fmt.Sprintf("workers.%d", c.Workers), fmt.Sprintf("sinks.%d", len(c.Sinks)), fmt.Sprintf("relay.%v", c.Relay), fmt.Sprintf("fan-out.%v", c.Fan > 1)}
	if overlap {
		classes = append(classes, "overlap.same-sink")
	}
	if raceEnabled {
		classes = append(classes, "build.race")
	}
	key := fmt.Sprint(c)
	hx.E.Case(overlap, key, classes...)
	hx.E.Class("events", int64(len(c.Events)))
	if overlap {
		hx.E.Sample(key, map[string]interface{}{"program": src, "events": len(c.Events), "workers": c.Workers, "relay": c.Relay})
	}
	return nil
}

func TestRegress(t *testing.T) { hx.Regress(t, runCase) }

var patterns = []string{"k.a.b", "k.a.*", "k.*.b", "k.*.*", "k.c.*", "k.a.c"}
var kinds = []string{"k.a.b", "k.a.c", "k.c.b", "k.c.d"}

func genCase(rt *rapid.T) Case {
	pick := func(n int, l string) int { return rapid.IntRange(0, n-1).Draw(rt, l) }
	c := Case{Workers: []int{2, 3, 4, 8, 16}[pick(5, "workers")], Relay: pick(4, "relay") == 0, Feeders: 2 + pick(15, "feeders")}
	if !c.Relay && pick(3, "fan") == 0 {
		c.Fan = 2 + pick(7, "fann")
	}
	ns := 1 + pick(4, "nsinks")
	prios := rapid.Permutation([]int{0, 1, 2, 3}).Draw(rt, "prios")
	for i := 0; i < ns; i++ {
		c.Sinks = append(c.Sinks, Sink{Pattern: patterns[pick(len(patterns), "pat")], Priority: prios[i],
			Helper: pick(2, "helper") == 0, Interp: pick(2, "interp") == 0, Mutex: pick(2, "mutex") == 0, Nested: pick(2, "nested") == 0, Bag: pick(2, "bag") == 0})
	}
	c.Sinks[0].Pattern = []string{"k.*.*", "k.a.*"}[pick(2, "pat0")] // most events trigger at least one sink
	ne := 50 + pick(8, "ne")*50
	if !hx.Thorough() && ne > 200 {
		ne = 200
	}
	failMode := pick(3, "failmode")
	for i := 0; i < ne; i++ {
		ev := Ev{Kind: kinds[(i*7+pick(4, "kindoff"))%len(kinds)], Loops: 1 + (i*3)%5, Fail: -1}
		switch failMode {
		case 1:
			if i%3 == 0 {
				ev.Fail = i % ns
			}
		case 2:
			ev.Fail = i % ns
		}
		c.Events = append(c.Events, ev)
	}
	return c
}

func TestProp(t *testing.T) { hx.Check(t, genCase, runCase) }

var _ = interpreter.NewECALDebugger
