module verif

go 1.23

require (
	github.com/krotik/common v1.4.4
	github.com/krotik/ecal v0.0.0
	pgregory.net/rapid v1.3.0
)

replace github.com/krotik/ecal => /repo
