#!/bin/sh
# Warms the Go build cache for every check (offline; nothing is fetched).
export GOFLAGS=-mod=mod GOPROXY=off GOSUMDB=off GOTOOLCHAIN=local
cd "$(dirname "$0")/harness" || exit 1
mkdir -p ../.build
go vet -tags verif ./internal/... >/dev/null 2>&1
rc=0
for d in c[0-9][0-9]; do
  [ -d "$d" ] || continue
  go test -c -tags verif -vet=off -o ../.build/$d.test ./$d || rc=1
done
# race builds for the properties that use the detector as an oracle
for d in $(cat ../race_pkgs.txt 2>/dev/null); do
  go test -c -race -tags verif -vet=off -o ../.build/$d-race.test ./$d || rc=1
done
exit $rc
