#!/bin/sh
# Warms the Go build cache for every registered check (offline; nothing is fetched).
export GOFLAGS=-mod=mod GOPROXY=off GOSUMDB=off GOTOOLCHAIN=local
cd "$(dirname "$0")" || exit 1
mkdir -p .build
rc=0
./check --list | while read id pkg race plain; do
  if [ "$race" = race ]; then
    (cd harness && go test -c -race -tags verif -vet=off -o ../.build/$pkg-race.test ./$pkg) || echo "setup: race build of $pkg failed" >&2
  fi
  if [ "$plain" = plain ]; then
    (cd harness && go test -c -tags verif -vet=off -o ../.build/$pkg.test ./$pkg) || { echo "setup: build of $pkg failed" >&2; touch .build/setup-failed; }
  fi
done
if [ -e .build/setup-failed ]; then rm -f .build/setup-failed; exit 1; fi
exit 0
