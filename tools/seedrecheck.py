#!/usr/bin/env python3
"""Re-run the check(s) against stored seeded changes and update their meta.json.
usage: tools/seedrecheck.py [--tier quick|thorough] [--note "text"] <name>... | --all"""
import json, os, subprocess, sys, time
a = sys.argv[1:]
tier, note = "quick", None
if "--tier" in a:
    i = a.index("--tier"); tier = a[i + 1]; del a[i:i + 2]
if "--note" in a:
    i = a.index("--note"); note = a[i + 1]; del a[i:i + 2]
names = sorted(os.listdir("/verif/seeded")) if a == ["--all"] else a
for n in names:
    d = os.path.join("/verif/seeded", n)
    meta = json.load(open(os.path.join(d, "meta.json")))
    ids = list(meta.get("checks") or {meta["property"]: {}})
    for cid in ids:
        t0 = time.time()
        p = subprocess.run("LINES_OUT=3 /verif/tools/seedrun.sh %s/patch.diff %s %s" % (d, cid, tier), shell=True, stdout=subprocess.PIPE, stderr=subprocess.STDOUT, text=True)
        verdict = {0: "missed", 1: "caught", 2: "inconclusive"}.get(p.returncode, "error(rc=%d)" % p.returncode)
        first = next((l.strip() for l in p.stdout.splitlines() if l.startswith("  ")), "")
        prev = (meta.get("checks", {}).get(cid, {}).get(tier) or {}).get("verdict")
        meta.setdefault("checks", {}).setdefault(cid, {})[tier] = dict(verdict=verdict, wall_s=round(time.time() - t0), first_line=first[:300])
        if prev and prev != verdict or note:
            meta.setdefault("history", []).append(dict(check=cid, tier=tier, before=prev, after=verdict, note=note or ""))
        print("%-50s %s %s: %s  %s" % (n, cid, tier, verdict, first[:120]))
    json.dump(meta, open(os.path.join(d, "meta.json"), "w"), indent=1)
