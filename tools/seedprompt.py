#!/usr/bin/env python3
"""Print the prompt given to a fresh sub-agent which seeds property-breaking changes.

usage: tools/seedprompt.py <ID> <dir>      (dir = scratch directory holding the agent's worktree <dir>/repo and <dir>/out)

The agent gets the text of one property (from properties.jsonl) and its own scratch worktree of /repo, nothing from /verif.
"""
import json, sys

focus = ""
if "--focus" in sys.argv:
    i = sys.argv.index("--focus"); del sys.argv[i]
    focus = """ FOCUS OF THIS ROUND: change 1 must sit OUTSIDE the code that most directly implements the property - in a caller, a helper, a shared utility, a constructor / configuration / reset path, the command line layer, or another package the property's code relies on - so that the property's own code is untouched and still breaks. Change 2 must only manifest on the SECOND or later use of something: state kept between evaluations of the same tree, between calls, loads, resets, restarts, re-registrations, repeated commands, or after an earlier error - the first use must behave exactly as before."""
if "--feature" in sys.argv:
    i = sys.argv.index("--feature"); del sys.argv[i]
    focus = """ FOCUS OF THIS ROUND: each change must read like a commit with a purpose of its own - a small new feature or option, support for a further input form, a fix for a different (real or plausible) shortcoming, a robustness or usability improvement - that is correct for what it sets out to do and breaks THIS property as a side effect in a situation its author did not think of. Not another cache and not another lock change."""
pid, d = sys.argv[1], sys.argv[2].rstrip("/")
p = next(json.loads(l) for l in open("/verif/properties.jsonl") if json.loads(l)["id"] == pid)
a = p["anchors"]
mech = "; ".join("%s (%s)" % (m["name"], m["where"]) for m in a.get("mechanism", []))
print(f"""You are helping to evaluate a verification harness that you will NOT see. Repository under test: krotik/ecal (an embeddable Go scripting-language interpreter with an event-condition-action rule engine), checked out as a detached git worktree at {d}/repo. Work ONLY inside {d}/ — never read or touch /verif, and never modify /repo itself. The sandbox is offline; for every shell call: export GOFLAGS=-mod=mod GOPROXY=off GOSUMDB=off GOTOOLCHAIN=local

PROPERTY {pid} — "{p['title']}" (it holds for the unmodified code in the worktree):
STATEMENT: {p['statement']}
QUANTIFIED OVER: {p['quantifier']['text']}
WHERE THE CODE IS: files {', '.join(a['files'])}; mechanisms: {mech}

TASK: produce TWO independent, realistic changes to the repository source (each as its own patch against the worktree HEAD) that each BREAK this property while
 (a) the code still compiles (go build for the packages touched; `go vet` clean is not required),
 (b) the repository's existing test suite still passes with the change: `go test -vet=off -count=1 ./parser ./interpreter ./scope ./engine/... ./util ./stdlib ./cli/tool ./config` (cli/tool TestHandleInput is known to be flaky on a loaded machine — rerun once if only it fails),
 (c) the change looks like something a developer might plausibly commit — a refactoring slip, an "optimisation", an off-by-one, a dropped or narrowed lock, a reordered statement, a cache, a "simplification", a wrong default — not sabotage with obviously dead conditions, magic constants or special-cased inputs.
Prefer changes that need something SPECIFIC to manifest — a particular interleaving, a fault or error at a particular point, a multi-step sequence of operations, an unusual input, or two cooperating sites that each look fine alone — rather than ones that ordinary use would expose at once. The two changes must differ in kind (different mechanism / different site). Look beyond the most obvious site: the less prominent files in the list above, error paths, rarely used language features and the interaction of two components are all fair game, as long as it is THIS property that breaks.{focus} Do not touch test files, and do not touch the package `verifhook` or the `verifhook.At(...)` call sites (they are inert instrumentation).

For EACH change provide a demonstration: a Go test file (to be placed in the relevant package directory of the worktree, named zz_seed_demo1_test.go / zz_seed_demo2_test.go) that FAILS with the change applied and PASSES on the unmodified worktree HEAD. Run it both ways and keep the outputs. For schedule-dependent breakage the demo may use loops, many goroutines, runtime.Gosched/sleeps to make the failure likely; say how often it fails (it should fail in the clear majority of runs with the change and never without).

DELIVERABLES in {d}/out/: change1.diff and change2.diff (`git diff` format relative to the repo root, each applying with `git apply` to a clean worktree HEAD on its own, NOT containing the demo files); demo1_test.go and demo2_test.go; NOTES.md saying for each change: the package directory where its demo file belongs and the `go test -run ...` command to run it, which clause of the property it breaks, what it needs in order to manifest, why a developer might plausibly make it, and the exact commands you ran with their results (demo with / without the change; the repository test suite with the change).
When you are done leave the worktree clean (`git -C {d}/repo checkout -- . && git -C {d}/repo clean -fdq`). Your final message: a concise summary of NOTES.md.""")
