#!/bin/bash
# usage: tools/seedrun.sh <patch.diff> <ID> [quick|thorough]
# Runs ./check <ID> against a scratch worktree of /repo HEAD with the patch applied, from a scratch copy of /verif
# (nothing in /repo or /verif is touched). Prints the check's verdict lines; exit code = the check's exit code.
P=$(readlink -f "$1"); ID=$2; TIER=${3:-quick}
S=/tmp/scratch/seed-$$; mkdir -p $S
git -C /repo worktree add -q --detach $S/repo HEAD || exit 2
if ! git -C $S/repo apply "$P"; then echo "PATCH DOES NOT APPLY"; git -C /repo worktree remove --force $S/repo; rm -rf $S; exit 3; fi
mkdir -p $S/verif
rsync -a --exclude .git --exclude .build --exclude replays --exclude evidence /verif/ $S/verif/
sed -i "s|=> /repo|=> $S/repo|" $S/verif/harness/go.mod
(cd $S/verif && ./check $ID --tier $TIER 2>&1 | grep -E "VIOLATION|OK property|INCONCLUSIVE|INFRA|BUILD FAILED|KNOWN-FINDING|^  [a-z]" | cut -c1-400 | head -${LINES_OUT:-6}; exit ${PIPESTATUS[0]})
rc=$?
if [ -n "$KEEP_REPLAY" ] && ls $S/verif/replays/$ID/*.json >/dev/null 2>&1; then mkdir -p "$KEEP_REPLAY"; cp $S/verif/replays/$ID/*.json "$KEEP_REPLAY"/; fi
git -C /repo worktree remove --force $S/repo
rm -rf $S
exit $rc
