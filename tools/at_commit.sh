#!/bin/bash
# usage: tools/at_commit.sh <repo-commit> <pkg> [go test args...]  -- runs a harness package against /repo at another commit (scratch worktree, removed afterwards)
C=$1; shift
export GOFLAGS=-mod=mod GOPROXY=off GOSUMDB=off GOTOOLCHAIN=local
W=/tmp/scratch/wt-$$; H=/tmp/scratch/h-$$
mkdir -p /tmp/scratch
git -C /repo worktree add -q --detach $W $C || exit 2
cp -r /verif/harness $H
sed -i "s|=> /repo|=> $W|" $H/go.mod
(cd $H && VERIF_ROOT=/verif go test -tags verif -count=1 "$@")
rc=$?
git -C /repo worktree remove --force $W
rm -rf $H
exit $rc
