#!/usr/bin/env python3
"""Verify a seeded property-breaking change and store it under /verif/seeded/<name>/.

usage: tools/seedstore.py <ID> <name> <patch.diff> <demo_test.go> <pkgdir> <run-regex> "<breaks>" "<needs>" [--tier quick|thorough] [--also ID2,ID3]

Steps (all in scratch worktrees of /repo HEAD, removed afterwards):
  1. patch applies and the touched packages build;
  2. the repository's own test suite passes with the patch (cli/tool rerun once: TestHandleInput is flaky);
  3. the demonstration FAILS with the patch and PASSES without it;
  4. ./check <ID> (isolated copy, tools/seedrun.sh) is run against the patched tree: quick, then thorough if quick misses it.
The result (patch.diff, demo, meta.json with what was run and what each check said) is written to /verif/seeded/<name>/.
"""
import json, os, shutil, subprocess, sys, time

ENV = dict(os.environ, GOFLAGS="-mod=mod", GOPROXY="off", GOSUMDB="off", GOTOOLCHAIN="local")
SUITE = "go test -vet=off -count=1 -timeout 120s ./parser ./interpreter ./scope ./engine/... ./util ./stdlib ./cli/tool ./config"


def sh(cmd, cwd=None, timeout=1800):
    p = subprocess.run(cmd, shell=True, cwd=cwd, env=ENV, stdout=subprocess.PIPE, stderr=subprocess.STDOUT, text=True, timeout=timeout)
    return p.returncode, p.stdout


def main():
    a = sys.argv[1:]
    tier_first = "quick"
    also = []
    if "--also" in a:
        i = a.index("--also"); also = a[i + 1].split(","); del a[i:i + 2]
    if "--tier" in a:
        i = a.index("--tier"); tier_first = a[i + 1]; del a[i:i + 2]
    pid, name, patch, demo, pkgdir, regex, breaks, needs = a[:8]
    patch, demo = os.path.abspath(patch), os.path.abspath(demo)
    wt = "/tmp/scratch/store-%d" % os.getpid()
    os.makedirs("/tmp/scratch", exist_ok=True)
    rc, out = sh("git -C /repo worktree add -q --detach %s HEAD" % wt)
    assert rc == 0, out
    meta = dict(property=pid, name=name, breaks=breaks, needs=needs, repo_head=sh("git -C /repo rev-parse --short HEAD")[1].strip(), ran=[])
    ok = True
    try:
        rc, out = sh("git apply %s" % patch, cwd=wt)
        meta["ran"].append(dict(cmd="git apply patch.diff (scratch worktree of /repo HEAD)", rc=rc))
        if rc != 0:
            print("PATCH DOES NOT APPLY\n" + out); return 3
        rc, out = sh("go build ./parser ./interpreter ./scope ./engine/... ./util ./stdlib ./cli/... ./config", cwd=wt)
        meta["ran"].append(dict(cmd="go build (packages of the repo)", rc=rc))
        if rc != 0:
            print("DOES NOT BUILD\n" + out[-2000:]); return 3
        rc, out = sh(SUITE, cwd=wt)
        if rc != 0:
            failed = [l for l in out.splitlines() if l.startswith("FAIL\t") or l.startswith("--- FAIL")]
            # cli/tool is flaky on a loaded machine on the unmodified tree as well (TestHandleInput, fixed TCP port): up to 3 reruns
            for attempt in range(3):
                rc2, out2 = sh(SUITE, cwd=wt)
                if rc2 == 0:
                    break
            meta["ran"].append(dict(cmd=SUITE + " (with the change; first run failed: %s; rerun up to 3 times)" % failed[:3], rc=rc2))
            rc = rc2
            out = out2
        else:
            meta["ran"].append(dict(cmd=SUITE + " (with the change)", rc=rc))
        if rc != 0:
            print("REPO SUITE FAILS WITH THE CHANGE\n" + "\n".join(l for l in out.splitlines() if "FAIL" in l)[:2000]); ok = False
        demo_dst = os.path.join(wt, pkgdir, "zz_seed_demo_test.go")
        shutil.copy(demo, demo_dst)
        cmd = "go test -vet=off -count=1 -run '%s' ./%s" % (regex, pkgdir)
        rc_with, out_with = sh(cmd, cwd=wt)
        meta["ran"].append(dict(cmd=cmd + " (demonstration WITH the change; must fail)", rc=rc_with))
        sh("git apply -R %s" % patch, cwd=wt)
        rc_without, out_without = sh(cmd, cwd=wt)
        meta["ran"].append(dict(cmd=cmd + " (demonstration WITHOUT the change; must pass)", rc=rc_without))
        if rc_with == 0 or rc_without != 0:
            print("DEMONSTRATION DOES NOT DISCRIMINATE: with=%d without=%d\n%s\n----\n%s" % (rc_with, rc_without, out_with[-1500:], out_without[-1500:])); ok = False
    finally:
        sh("git -C /repo worktree remove --force %s" % wt)
    meta["confirmed"] = ok
    verdicts = {}
    if ok:
        for cid in [pid] + also:
            for tier in ([tier_first] if tier_first == "thorough" else ["quick", "thorough"]):
                t0 = time.time()
                rc, out = sh("LINES_OUT=3 /verif/tools/seedrun.sh %s %s %s" % (patch, cid, tier), timeout=3 * 3600)
                verdict = {0: "missed", 1: "caught", 2: "inconclusive"}.get(rc, "error(rc=%d)" % rc)
                first = next((l.strip() for l in out.splitlines() if l.startswith("  ")), "")
                verdicts.setdefault(cid, {})[tier] = dict(verdict=verdict, wall_s=round(time.time() - t0), first_line=first[:300])
                meta["ran"].append(dict(cmd="./check %s --tier %s against the patched tree (tools/seedrun.sh)" % (cid, tier), rc=rc, verdict=verdict))
                print("%s %s: %s  %s" % (cid, tier, verdict, first[:160]))
                if verdict == "caught" or cid != pid:
                    break
    meta["checks"] = verdicts
    dst = os.path.join("/verif/seeded", name)
    os.makedirs(dst, exist_ok=True)
    shutil.copy(patch, os.path.join(dst, "patch.diff"))
    shutil.copy(demo, os.path.join(dst, "demo_test.go"))
    meta["demo"] = "copy demo_test.go to %s/zz_seed_demo_test.go and run: go test -vet=off -count=1 -run '%s' ./%s" % (pkgdir, regex, pkgdir)
    with open(os.path.join(dst, "meta.json"), "w") as f:
        json.dump(meta, f, indent=1)
        f.write("\n")
    print("stored %s (confirmed=%s)" % (dst, ok))
    return 0 if ok else 4


if __name__ == "__main__":
    sys.exit(main())
