#!/usr/bin/env python3
"""Writes /verif/MANIFEST.json from the table below (kept in one place so it stays valid)."""
import json, os, subprocess

ROOT = os.path.dirname(os.path.dirname(os.path.abspath(__file__)))

def hook_commits():
    try:
        out = subprocess.run(["git", "-C", "/repo", "log", "--format=%H %s"], capture_output=True, text=True).stdout
        return [l.split()[0] for l in out.splitlines() if " verif hooks" in l or l.split(" ", 1)[1].startswith("verif hook")]
    except Exception:
        return []

# id -> (technique, level text, level note, design ref)
CHECKS = {
 "C01": ("exhaustive small-universe enumeration + rapid-generated rule sets x event histories against a reference matcher written from the statement; three drivers (rule index, started processor, ECAL sinks)",
         "Exploration. Rule sets of 1-8 rules (and wide sets of 60-70 state rules on one kind) with overlapping / duplicate kind patterns over {a,b,c,*}, scope matches, state matches (NULL, scalars, regular expressions, containers), priorities and suppression lists are combined with histories of 1-6 events whose names collide across kinds, each with its own cascade scope, on 1-4 workers. The same case runs through RuleIndex.Match/IsTriggering, through a started Processor with AddEventAndWait (rule actions record (rule, event identity)), and for a sample as ECAL sink declarations with addEventAndWait. Oracle = the harness's own matcher (kind segment-wise with *, state with NULL/equal/regex, most-specific-prefix scopes, suppression by any other matching in-scope rule): exactly that set, each exactly once; Match = the kind-and-state set without duplicates; a non-empty set means a non-nil monitor and IsTriggering. Both tiers enumerate completely all ordered rule pairs over {a,*} patterns x three state matches x all two-event histories sharing a name (35 k cases quick, 1.7 M thorough).",
         "Events involving container-valued requirements or values are only required not to crash and to fire at most once (the statement does not define equality on containers). A watchdog (20 s) turns a Match that never returns into a reproducible verdict through the write-ahead case file.",
         "DESIGN.md 4/C01"),
 "C02": ("rapid-generated cascade trees x worker counts x perturbation plans over monitor/task/pool hook points; history invariants over stamps recorded by the rule actions; Go API and ECAL addEventAndWait routes",
         "Exploration with an owned schedule at the hook points. Cascade trees (<= 25 events, depth <= 4, fan-out <= 4, 1-3 rules per event kind, failing rules and skipped non-triggering children at generated positions) are run 1-6 at a time from separate goroutines on 1-16 workers under both failOnFirstError settings, with a generated perturbation plan (directed holds between the counter decrement and the finished notification, between SetErrors and Finish, between Push and Signal, plus random yield/sleep/hold rules). Invariants when AddEventAndWait returns: every expected action has a finish stamp below the return stamp and none starts later; no unexpected action ran; every monitor handed out with an event is finished; AllErrors is exactly the expected set of (event, rule) pairs, each carrying that action's own error value and event, none from another cascade; after quiescence the finish handler ran exactly once and no action ran twice. One case in five goes through ECAL source (sinks that addEvent, main program addEventAndWait; report type/detail/data/event kind per failing sink). Liveness ('it does return') by the stuck-state rule: all workers idle, no active hold, three identical samples, bound >= 5 s.",
         "Interleavings are sampled, not enumerated; windows at hook points are reached deterministically by directed plans. Root events are always triggering (a skipped root has no cascade).",
         "DESIGN.md 4/C02, 2.6"),
 "C03": ("exhaustive operator-pair enumeration + rapid type-directed expression trees against an independent reference evaluator and a parse-structure oracle",
         "Exploration. All 19x19 binary operator nestings on either side, all prefix x binary / prefix x prefix combinations (each printed with the minimal parentheses the DOCUMENTED precedence requires and fully parenthesised) with well-typed operands and one ill-typed operand of every other kind per slot are enumerated completely; random type-directed trees to depth 6 add redundant parentheses, layout and keyword-case variation. Two oracles: the tree ECAL parsed must equal the generated tree (precedence/associativity independent of values) and Eval must equal the harness's own evaluator (bit-exact floats) or fail with the documented error kind naming the operand. Behaviour the references leave open (cross-kind ordering/equality, %, / by zero, short-circuit over a failing operand) is discarded and counted.",
         "Relative to internal/lang (the harness's reading of ecal.md and the property text; shares no code with /repo). Depth beyond 6 and operands outside the fixed universe are not explored.",
         "DESIGN.md 4/C03"),
 "C04": ("rapid-generated control-flow programs + exhaustive try/exit matrix, compared with a reference interpreter (observation trace and escaping error)",
         "Exploration. Programs over if/elif/else, all four loop forms, break/continue/return, functions and try with every clause shape are generated (nesting <= 4, <= 40 statements) with an observation (t.rec) before and after every construct; the ordered trace, and the type/detail/data of an escaping error, must equal what the harness's reference interpreter predicts. The product exit kind (7) x except shape (9) x otherwise x finally x enclosing construct (4) is enumerated completely in both tiers. The reference is run under all 32 combinations of the choices the documentation leaves open (block-scope persistence, loop-scope freshness, where loop/except/func names are bound); a program is only judged if all agree.",
         "Relative to internal/lang (reading of ecal.md + property text). Errors raised inside finally, otherwise after a control exit, non-boolean guards and the value of a call without return are treated as unspecified and discarded (counted).",
         "DESIGN.md 4/C04"),
 "C19": ("exhaustive enumeration + rapid generation of (function, argument vector) pairs against direct Go calls with the harness's own conversion table",
         "Exploration. All 62 generated math.* entries plus 86 synthetic Go functions (every numeric parameter kind, named numeric types, interface{}, slices, variadic, multi-result, trailing error, panicking) are called through ECALFunctionAdapter.Run, and a sample through ECAL source, with every argument vector of length 0-2 (quick) / 0-3, 4 for wide signatures (thorough) over a 22-value universe plus integer-kind boundary values; rapid adds vectors to length 6 with arbitrary floats/strings. Oracle: no panic escapes; result XOR descriptive error; a returned result equals calling the Go function directly with arguments converted by the harness's own table (numbers back as float64, trailing Go error as the error); exact-arity kind-matching in-range numeric calls must succeed.",
         "Fractional / out-of-range numbers for integer parameters, variadic and non-scalar signatures are only required to give a faithful result or an error (the statement allows a descriptive error). The real plugin loader cannot be reached from outside the package; its wrapper shape is covered by synthetic functions.",
         "DESIGN.md 4/C19"),
 "C05": ("rapid-generated scoping/closure/container/object programs compared with a store-passing reference interpreter under all undocumented-choice variants",
         "Exploration. Programs over a bounded name set mix global/block/function scopes, let, shadowing by let and by parameters, recursion, parameter defaults with fewer arguments, closures that outlive their defining call, list/map literals with number and string keys, writes through dot/bracket/nested paths, aliases and parameters, len/add/del/concat, and templates with single/multiple inheritance, init and super constructors. Observations (t.rec) and visibility probes (value | null-or-error) must equal the reference interpreter's prediction; the reference runs under all 32 variants of the scoping choices the documentation leaves open and a program is only judged if they agree.",
         "Relative to internal/lang. Use of a list/map after add/del returned its successor, extra call arguments, reads of missing keys, the key kind seen when iterating a number key created by assignment, and conflicts between two super templates are unspecified and discarded (counted).",
         "DESIGN.md 4/C05"),
 "C18": ("exhaustive piece-sequence enumeration + rapid-generated sources with known byte offsets + native fuzzing; positions recomputed from offsets, planted errors, comment-blanking metamorphic relation",
         "Exploration. Sources are assembled from pieces with known byte offsets (identifiers, numbers, every symbol/keyword, quoted and raw multi-line strings, # and /* */ comments, CR/LF/CRLF/tab, multi-byte runes): all sequences over a 14-piece alphabet to length 4 (quick) / 5 (thorough) plus random soups and valid programs with fillers in every gap. Every token's Pos/line/column is recomputed from the offsets; stray tokens, lexical errors and ill-typed operands are planted at known places and the reported error position checked; replacing comments by blanks of equal shape must not change the tree (including token positions). Thorough adds FuzzLexPositions on arbitrary bytes.",
         "Breakpoints are covered through the token lines the tree carries (the debugger reads node.Token.Lline), not through a live debugger. One open known finding (C18-line-comment-column) is excluded by construction: generated sources put an extra newline after # comments; enumerated/fuzz cases with that shape are skipped and counted.",
         "DESIGN.md 4/C18"),
 "C20": ("exhaustive sweep over interpreter-binary lengths x filler classes x project trees + rapid random cases through Pack and RunPackedBinary",
         "Exploration. 'Interpreter binaries' of every length over one (quick) / two (thorough) full periods of the scanner geometry (4096-byte blocks + 28-byte look-ahead), with '#'-free, '#'-per-block, dense-'#' fillers and 30 marker fragments planted at every gap 0..32 before the true marker around each read boundary, are packed with 6 project trees (flat, nested, empty file, all 256 byte values, names with spaces, large). RunPackedBinary (through the verif IO hook) must call exit with the entry's result, the recovered file map (pack.files hook) must equal the tree byte for byte, and the archive is re-opened independently at len(binary)+len(marker). A sample of every enumeration goes through the real Pack (byte-identical to the assembled target).",
         "Precondition: the filler never contains the complete marker (a real interpreter binary does not: the marker is assembled at run time). Most sweep cases assemble binary+marker+reference archive instead of calling Pack (checked byte-identical on the sampled Pack cases).",
         "DESIGN.md 4/C20"),
 "C06": ("exhaustive built-in x argument-vector and operator x operand matrices over a value universe + directed access/assignment cases + rapid ill-typed mutations of generated programs + sink/event cases through ProcessEvent and the real pool + native fuzzing under a step budget; totality oracle",
         "Exploration. Every entry of InbuildFuncMap (and log/error/debug, math.*) is called with every argument vector of length 0-2 (thorough: 0-3) over a 26-value universe (null, booleans, boundary numbers incl. +-Inf/NaN/-0/1e+308, strings, lists, maps with number/text/nested keys, a function, an object), every binary/prefix operator with every operand pair, container reads/writes with every index kind on every container kind (incl. writes whose right side shrinks the container between the read and the write), multi-assignment and loop destructuring mismatches, calls of non-functions, raise with 0-4 arguments, new with malformed templates; rapid mutates programs from the C04/C05 generators by replacing sub-expressions with arbitrary universe values; sink declarations take arbitrary attribute values and events arbitrary state/scope values (through ProcessEvent under recover and, for a sample, through the real pool with a write-ahead case file). Every candidate runs bare and wrapped in try/except: no panic, no process exit; an error raised inside try must be catchable there; a failing sink fails only its invocation and a following event is still processed. Thorough adds FuzzEval (source bytes under a 20 000-visit step budget).",
         "setPulseTrigger is only called with argument vectors that fail its validation (it starts an immortal goroutine); sleep only with <= 1 ms. A panic on a pool worker cannot be recovered in-process: the driver reports the write-ahead case (signature crash:inflight).",
         "DESIGN.md 4/C06"),
 "C07": ("rapid-generated byte strings, token soups and mutations of valid programs + exhaustive truncation/stray-token enumerations + native fuzzing; tree schema, error-position and goroutine-leak oracles",
         "Exploration. Inputs: random bytes (invalid UTF-8, NUL), token soups over the complete vocabulary, and mutations (delete/duplicate/swap tokens, unbalanced brackets, stray ; ) } ], truncation at every token) of a 292-program corpus and of generated nested programs; every truncation and every stray-token insertion of the corpus is enumerated. Oracle: Parse returns within a watchdog bound; exactly one of (tree, error); errors are parser.Error of a documented type positioned inside the input; trees have no nil node, known node kinds and the child arities the walkers index unchecked (schema extracted from interpreter/rt_*.go and prettyprinter.go), and PrettyPrint / ParseWithRuntime+Validate do not panic on them; no goroutine with parser frames stays in 'chan send' after the call. Thorough adds FuzzParse (431 seeds).",
         "Parses run one at a time in an otherwise idle process (goroutine accounting). A hang verdict needs 20 watchdog ticks; a goroutine-count rise without a parked parser goroutine is only counted.",
         "DESIGN.md 4/C07, Appendix A"),
 "C09": ("rapid-generated pool operation histories x perturbation plans over build-tagged hook points, model of submitted tasks, stuck-state rule for the liveness clause",
         "Exploration with an owned schedule at the hook points. Histories over one pool (add bursts, resize up/down with and without wait, passive settle, WaitAll, JoinAll + restart) are generated together with a perturbation plan (yield / sleep / hold a goroutine at a named pool point until another point has been passed, always with a timeout); 30 directed cases hold a worker between its empty dequeue and its wait (pool.gettask.empty, pool.idle.wait) while a task is added or the worker count is reduced. Oracle: every task's run counter is <= 1 at all times; after WaitAll/JoinAll every task submitted before has finished; WorkerCount equals the request after a waiting resize and converges passively after a non-waiting one; 'eventually, without any further call' is decided as a safety property on a stuck state: no call is made except State()/WorkerCount(), and a violation needs three identical samples 500 ms apart, no active hold, a pending task with all workers idle, after a bound of >= 5 s where microseconds are expected; anything else is inconclusive (exit 2).",
         "The Go scheduler is not owned: windows at hook points are reached deterministically, interleavings between two points without a hook are only sampled (e.g. a Signal issued before the Push inside AddTask was not caught in a sensitivity experiment). Default FIFO queue only; the engine's TaskQueue is driven through C02/C10.",
         "DESIGN.md 4/C09, 2.6"),
 "C12": ("rapid-generated multi-threaded mutex programs (direct evaluation and sink threads) with Go-side occupancy probes; directed rendezvous cases; stuck-state verdicts",
         "Exploration. 2-16 threads (direct Eval with distinct thread ids, sink invocations on pool workers, cascades, mixed) run generated bodies with blocks over 1-3 names, nesting <= 3, re-entry, and every exit kind (fall through, error, return, break, continue, caught by an outer try, propagating out of the thread). Go probe functions registered in the stdlib observe entry/exit: no other thread may be inside a name at entry; read-yield-write counters must not lose updates; all threads finish; every named mutex is free (TryLock) and the owner table is clear at the end; 78 directed cases park a holder inside a block to make non-exclusion of different names and release-after-error deterministic.",
         "Schedules are sampled, not enumerated (no hook inside mutexRuntime.Eval); deadlock-type verdicts use the stuck-state rule (60 s bound AND a provably final state, otherwise inconclusive = exit 2).",
         "DESIGN.md 4/C12"),
 "C13": ("rapid-generated program sets parsed/validated/evaluated concurrently; differential against the sequential result; unique-component-id invariant; Go race detector as a history invariant (same package run as a -race and a plain build)",
         "Exploration. Sets of 2-16 generated and corpus programs (with and without if/for, map literals, imports, interpolated strings, sinks; some invalid) are parsed 50-500 times each from 2-16 goroutines, with no runtime provider, one shared provider or fresh providers; host goroutines also Validate, pretty-print and Eval, and sinks on several workers import and interpolate (run-time parses). Every concurrent tree / error text must equal the sequential result for the same text; runtime component ids must be unique; a fatal 'concurrent map' abort is caught through the write-ahead case file; in the -race pass a report whose two access sites lie in parser/ or in the interpreter's component construction is a violation (other races are counted).",
         "Schedules are sampled; the detector reports only races that occur in an explored execution (race-pass failures do not shrink). The static scan mentioned in the anchor is another technique and is not used.",
         "DESIGN.md 4/C13, 2.7"),
 "C14": ("exhaustive piece-sequence enumeration + rapid generation + native fuzzing of string literals against a single-pass reference and a side-effect counter",
         "Exploration. Literals are built from pieces {text, {{, }}, {, }, quotes, escapes, newline, expression} in every order up to 4/3 (quick) or 5/4 (thorough) pieces for quoted/raw forms, each under 6 values of the substituted variable (including values that contain {{tick()}}, {{x}} (self-reproducing), }} and {{); random literals to 8 pieces; thorough adds FuzzInterpolate. Oracle: the harness's own single left-to-right pass (leftmost {{, nearest following }}, continue after the substituted text, raw strings untouched), the number of tick() side effects written in the literal itself, termination within a node-visit budget (step-counting debugger), no panic.",
         "Empty {{}}, code the reference does not know and the text of an inline error marker are wildcard slots (the documentation leaves them open).",
         "DESIGN.md 4/C14"),
 "C11": ("rapid-generated sink programs x concurrent event batches on 2-16 workers; per-event value/error oracle from the payload; Go race detector as a history invariant (race build)",
         "Exploration. Programs with 1-4 sinks over overlapping kind patterns (distinct priorities) whose bodies derive locals from event.state, call a shared global function, loop with block-local lets, interpolate strings, update a global inside a mutex block and then succeed or raise(type, detail, data) built from the event's own id; 50-400 events are fired from 2-16 concurrent goroutines with AddEventAndWait (a quarter of the cases through a relay sink that re-adds them with addEvent). Per event the echoed locals, helper result, interpolated text, event.name/state, the set of sinks that ran (fail-on-first-error prefix) and the error report (exactly the failing sink, with that invocation's type/detail/data and event) must be what the payload dictates; the mutex-protected global equals the number of increments. The test binary is built with -race: after every case the detector's log is read and a report whose two access sites both lie in interpreter/ or scope/ is a violation (races elsewhere are counted, not reported).",
         "Schedules are sampled; the detector reports only races that occur in an explored execution. Non-trivial = two invocations of one sink overlapped (measured from the recorded start/echo positions).",
         "DESIGN.md 4/C11, 2.7"),
 "C15": ("rapid-generated programs x breakpoint sets x command sequences x perturbation plans at the suspend/resume hook points; metamorphic comparison with an undebugged run; stop prediction from the baseline line-visit trace; stuck-state rule for resumability",
         "Exploration with an owned schedule at the debug hook points. Control-flow programs from the C04 generator (a quarter run as a sink body on a pool worker, events sent with addEventAndWait) are debugged with generated breakpoints (set / disabled / removed), breakOnStart / breakOnError, and a command sequence over resume / stepin / stepover / stepout applied round robin by a controller that polls Status() and always continues what is suspended; a decorator around the real debugger records which line each thread visits. Oracles: (1) result, escaping error, observation trace, log and global-scope dump equal the plain run (also with a debugger attached and no breakpoints); (2) every stop after a resume is justified by an active breakpoint / breakOnStart / breakOnError; (3) for resume-only sessions the per-thread stop sequence equals the one computed from the plain run's line-visit trace and the active breakpoints (first visit of every maximal run of one line); (4) after Continue a thread reported suspended must leave its wait (debug.resumed hook) - a directed plan holds the thread between publishing its suspension and waiting until the controller has issued Continue; verdict by the stuck-state rule (no progress, no active hold, three samples, bound >= 5 s).",
         "Step commands are only checked for transparency, justified stops after resume and resumability (the exact stop positions of stepin/stepover/stepout are not modelled). Sink variants use one worker so thread-local visit sequences are schedule independent. StopThreads is exercised by C16.",
         "DESIGN.md 4/C15, Appendix B"),
 "C16": ("exhaustive command x debugger-state x argument-class table + rapid-generated command sequences against a live debugger session",
         "Exploration. 15 command words x 14 reachable debugger states (fresh, parsed, finished, running, suspended at top level / inside nested calls, error-suspended, after StopThreads, ...) x typed argument tuples up to arity+1 (valid / running / unknown / negative / huge / non-numeric thread ids, known / unknown / malformed source:line, identifiers, terminating / ill-typed / unparsable expressions, step kinds, garbage) are enumerated completely (31 k cases), plus random sequences of state-changing actions and commands. After every command: HandleInput did not panic; it returned an error or a json.Marshal-able result; a following `status` AND a write-lock probe answer within 5 s; at the end every suspended thread can be resumed and the program completes.",
         "Commands are issued from one goroutine at a time (StopThreads with two suspended threads races on a map: out of the statement, excluded and counted). 'Suspended inside a sink on a pool worker' is not among the states.",
         "DESIGN.md 4/C16"),
 "C17": ("exhaustive enumeration + rapid random generation of (root, path) pairs against a sentinel-file oracle",
         "Exploration. Every (root form x path) pair over a 7-segment alphabet up to length 4 (quick) / 6 (thorough) is enumerated completely against a directory tree in which every reachable location, inside and outside the root, holds a sentinel naming its own canonical path; random longer paths with hostile segments are added by rapid, both through Resolve and through ECAL import statements. A returned content that names a location outside the lexical root is a violation. Exhaustive within the bound, sampled beyond; no absence proof for longer paths.",
         "Trusts the harness's 10-line stack normaliser for the root only (the content oracle is independent of any normaliser); symlinks are out of scope (the statement says lexically inside).",
         "DESIGN.md 4/C17"),
}

PENDING_REASON = "check not built yet in this session (work in progress; see DESIGN.md section 4 for the planned generator and oracle)"

def main():
    props = [json.loads(l) for l in open(os.path.join(ROOT, "properties.jsonl"))]
    checks, na = [], []
    for p in props:
        pid = p["id"]
        if pid in CHECKS:
            tech, text, note, ref = CHECKS[pid]
            checks.append({
                "property_id": pid,
                "quick_cmd": "./check %s --tier quick" % pid,
                "thorough_cmd": "./check %s --tier thorough" % pid,
                "evidence_file": "/verif/evidence/%s.json" % pid,
                "replay_cmd_template": "./check %s --replay {path}" % pid,
                "engine": "harness",
                "level_claimed": {"category": "exploration", "text": text, "design_ref": ref},
                "level_note": note,
                "technique": tech,
            })
        else:
            na.append({"property_id": pid, "reason": PENDING_REASON})
    m = {
        "version": 1,
        "setup_cmd": "./setup.sh",
        "hooks": {
            "guard": "verif",
            "enable": "go build tag: every check runs `go test -tags verif` in /verif/harness, whose go.mod replaces github.com/krotik/ecal with /repo",
            "baseline_off_cmd": "cd /repo && GOFLAGS=-mod=mod GOPROXY=off GOSUMDB=off go test -vet=off -count=1 ./...",
            "source_commits": hook_commits(),
            "add_only": True,
        },
        "engines": [{
            "name": "harness",
            "path": "/verif/harness",
            "serves_properties": sorted(CHECKS),
            "kind_free_text": "Go module (rapid v1.3.0 property-based tests, exhaustive enumerations, native go fuzz targets, -race builds) driven by /verif/check (python3, stdlib only)",
        }],
        "checks": checks,
        "not_applicable": na,
        "notes": "All checks are generated-input search against an explicit oracle (property-based testing / fuzzing). Exit codes of ./check: 0 held, 1 VIOLATION line printed, 2 inconclusive (infrastructure). Known findings: /verif/known_findings.json.",
    }
    with open(os.path.join(ROOT, "MANIFEST.json"), "w") as f:
        json.dump(m, f, indent=1)
        f.write("\n")

if __name__ == "__main__":
    main()
