#!/bin/bash
# usage: tools/mutant.sh <ID> <file-in-repo> <python-regex-old> <new>   -- applies a one-off textual mutation to /repo, runs the quick check, reverts
ID=$1; F=$2; OLD=$3; NEW=$4
cd /repo || exit 2
if [ -n "$(git status --porcelain)" ]; then echo "repo not clean"; exit 2; fi
python3 - "$F" "$OLD" "$NEW" <<'PY'
import re,sys
f,old,new=sys.argv[1:4]
s=open(f).read()
s2,n=re.subn(old,new,s,count=1,flags=re.S)
if n!=1: print("MUTATION DID NOT APPLY"); sys.exit(3)
open(f,'w').write(s2)
PY
rc=$?
if [ $rc -ne 0 ]; then git checkout -- .; exit $rc; fi
git --no-pager diff --stat | tail -1
cd /verif && ./check $ID --tier ${TIER:-quick} 2>&1 | grep -E "VIOLATION|OK property|INCONCLUSIVE|INFRA|BUILD FAILED|^  [a-z]" | head -${LINES_OUT:-4}
git -C /repo checkout -- .
