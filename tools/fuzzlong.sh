#!/bin/bash
# usage: tools/fuzzlong.sh <pkg> <FuzzTarget> <seconds>   -- a long native fuzzing campaign outside the registered tiers
# (exploration aid: anything it finds is replayed with ./check <ID> --replay and becomes a regress case)
PKG=$1; T=$2; SECS=$3
export GOFLAGS=-mod=mod GOPROXY=off GOSUMDB=off GOTOOLCHAIN=local
ROOT=$(cd "$(dirname "$0")/.." && pwd)
OUT=$ROOT/.build/fuzzlong-$PKG-$T; mkdir -p $OUT
cd $ROOT/harness
before=$(ls $PKG/testdata/fuzz/$T 2>/dev/null | sort)
VERIF_ROOT=$ROOT VERIF_TIER=thorough VERIF_SEED=1 VERIF_SHARD=0 VERIF_SHARDS=1 VERIF_STATS_DIR=$OUT VERIF_REPLAY=$OUT/replay.json VERIF_FUZZ=1 \
  go test -tags verif -vet=off -run '^$' -fuzz "^$T\$" -fuzztime ${SECS}s -parallel ${FUZZ_PARALLEL:-8} -test.timeout $((SECS+600))s ./$PKG > $OUT/log.txt 2>&1
rc=$?
tail -3 $OUT/log.txt
after=$(ls $PKG/testdata/fuzz/$T 2>/dev/null | sort)
for n in $(comm -13 <(echo "$before") <(echo "$after")); do cp $PKG/testdata/fuzz/$T/$n $OUT/; rm $PKG/testdata/fuzz/$T/$n; echo "new crasher kept as $OUT/$n"; done
[ -f $OUT/replay.json ] && echo "REPLAY $OUT/replay.json"
exit $rc
