#!/usr/bin/env python3
"""Regenerates the seeded-change table between the markers in DESIGN.md (section 8.3)."""
import subprocess
t = subprocess.run(["python3", "/verif/tools/seeded_table.py"], stdout=subprocess.PIPE, text=True, check=True).stdout
s = open("/verif/DESIGN.md").read()
b, e = "<!-- seeded-table:begin -->\n", "<!-- seeded-table:end -->"
i, j = s.index(b) + len(b), s.index(e)
open("/verif/DESIGN.md", "w").write(s[:i] + t + s[j:])
