#!/usr/bin/env python3
"""Prints the markdown table of section 8.3 of DESIGN.md from /verif/seeded/*/meta.json."""
import json, os
rows = []
for n in sorted(os.listdir("/verif/seeded")):
    p = os.path.join("/verif/seeded", n, "meta.json")
    if not os.path.exists(p):
        continue
    m = json.load(open(p))
    cells = []
    for cid, tiers in (m.get("checks") or {}).items():
        best = None
        for tier in ("quick", "thorough"):
            v = (tiers.get(tier) or {}).get("verdict")
            if v == "caught":
                best = "%s %s" % (cid, tier)
                break
        cells.append(best or "%s: %s" % (cid, "/".join("%s=%s" % (t, (tiers.get(t) or {}).get("verdict")) for t in tiers)))
    hist = "; ".join("%s %s: %s -> %s%s" % (h["check"], h["tier"], h.get("before"), h["after"], (" (" + h["note"] + ")") if h.get("note") else "") for h in m.get("history", []))
    rows.append((n, m["needs"], ", ".join(cells), hist))
print("| seeded change | needs, in order to manifest | caught by | history |")
print("|---|---|---|---|")
for r in rows:
    print("| `%s` | %s | %s | %s |" % tuple(x.replace("|", "\\|").replace("\n", " ") for x in r))
